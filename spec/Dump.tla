-------------------------------- MODULE Dump --------------------------------
(***************************************************************************)
(* The documented rendering of a syntax tree (grammar/ast.go:              *)
(* ExpressionDump, Selector.String, the operator names, the binding        *)
(* description): one block per node in pre-order, children one level       *)
(* deeper, the selector in its own spelling (dotted for bexpr selectors,   *)
(* slash-joined for JSON Pointers), the quoted literal for equality and    *)
(* membership operators.                                                   *)
(*                                                                         *)
(* DumpLines(e, lv) is the rendering as a sequence of lines                *)
(*   [lv |-> nesting level, s |-> text (, q |-> literal to be quoted)]     *)
(* the writer prefixes each line with lv copies of the indent string and   *)
(* ends it with a newline.                                                 *)
(***************************************************************************)
EXTENDS Integers, Sequences, TLC, Json

CONSTANT WorldFile
W == JsonDeserialize(WorldFile)

OpName(op) ==
  CASE op = "==" -> "Equal" [] op = "!=" -> "Not Equal" [] op = "in" -> "In" [] op = "notin" -> "Not In"
    [] op = "empty" -> "Is Empty" [] op = "notempty" -> "Is Not Empty" [] op = "matches" -> "Matches" [] op = "notmatches" -> "Not Matches"
    [] op = "and" -> "And" [] op = "or" -> "Or" [] op = "not" -> "Not" [] op = "any" -> "ANY" [] op = "all" -> "ALL"

RECURSIVE Join(_, _, _)
Join(parts, i, sep) == IF i > Len(parts) THEN "" ELSE (IF i > 1 THEN sep ELSE "") \o parts[i] \o Join(parts, i + 1, sep)
SelStr(sel) == Join(sel.path, 1, IF sel.ty = "ptr" THEN "/" ELSE ".")

Binding(e) ==
  CASE e.mode = "default" -> "Default (" \o e.n1 \o ")"
    [] e.mode = "index"   -> "Index (" \o e.n1 \o ")"
    [] e.mode = "value"   -> "Value (" \o e.n2 \o ")"
    [] e.mode = "both"    -> "Index & Value (" \o e.n1 \o ", " \o e.n2 \o ")"

Line(lv, s) == [lv |-> lv, s |-> s, hq |-> FALSE, q |-> ""]

RECURSIVE DumpLines(_, _)
DumpLines(e, lv) ==
  CASE e.t = "not" -> <<Line(lv, "Not {")>> \o DumpLines(e.e, lv + 1) \o <<Line(lv, "}")>>
    [] e.t \in {"and", "or"} -> <<Line(lv, OpName(e.t) \o " {")>> \o DumpLines(e.l, lv + 1) \o DumpLines(e.r, lv + 1) \o <<Line(lv, "}")>>
    [] e.t = "match" ->
         <<Line(lv, OpName(e.op) \o " {"), Line(lv + 1, "Selector: " \o SelStr(e.sel))>>
         \o (IF e.op \in {"==", "!=", "in", "notin"} THEN <<[lv |-> lv + 1, s |-> "Value: ", hq |-> TRUE, q |-> e.val]>> ELSE <<>>)
         \o <<Line(lv, "}")>>
    [] e.t = "coll" ->
         <<Line(lv, OpName(e.op) \o " " \o Binding(e) \o " on " \o SelStr(e.sel) \o " {")>> \o DumpLines(e.e, lv + 1) \o <<Line(lv, "}")>>

\* one block per node, in pre-order: the number of lines that open a block equals the number of nodes
RECURSIVE Nodes(_)
Nodes(e) == CASE e.t = "not" -> 1 + Nodes(e.e) [] e.t \in {"and", "or"} -> 1 + Nodes(e.l) + Nodes(e.r) [] e.t = "match" -> 1 [] e.t = "coll" -> 1 + Nodes(e.e)
RECURSIVE Depth(_)
Depth(e) == CASE e.t = "not" -> 1 + Depth(e.e) [] e.t \in {"and", "or"} -> 1 + (IF Depth(e.l) > Depth(e.r) THEN Depth(e.l) ELSE Depth(e.r))
              [] e.t = "match" -> 1 [] e.t = "coll" -> 1 + Depth(e.e)
Opens(ls) == Len(SelectSeq(ls, LAMBDA l : Len(l.s) >= 1 /\ SubSeq(l.s, Len(l.s), Len(l.s)) = "{"))

VARIABLE i
Init == i = 0
Pick == i = 0 /\ \E j \in 1..Len(W.trees) : i' = j
Emit == i > 0 /\ PrintT("CASE " \o ToJson([n |-> i, lines |-> DumpLines(W.trees[i], 0)])) /\ UNCHANGED i
Next == Pick \/ Emit
Spec == Init /\ [][Next]_i

WellFormed ==
  i > 0 => LET ls == DumpLines(W.trees[i], 0) IN
    /\ Opens(ls) = Nodes(W.trees[i])
    /\ \A k \in 1..Len(ls) : ls[k].lv >= 0 /\ ls[k].lv <= Depth(W.trees[i])
    /\ ls[1].lv = 0 /\ ls[Len(ls)].lv = 0 /\ ls[Len(ls)].s = "}"
=============================================================================
