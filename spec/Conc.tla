-------------------------------- MODULE Conc --------------------------------
(***************************************************************************)
(* One Evaluator shared by goroutines (C12).                               *)
(*                                                                         *)
(* The only memory an Evaluate call could share with another call is the   *)
(* syntax tree: each `matches` node has a cell (MatchValue.Converted)      *)
(* holding the compiled regular expression.  The model has one cell per    *)
(* matches node of the shared expression, G goroutines, each making Calls  *)
(* calls; a call touches, in evaluation order, the cells of the matches    *)
(* nodes it reaches.                                                       *)
(*                                                                         *)
(* MODE = "create"  (the code after the fix: commit 1323c0a): CreateEvaluator *)
(*    fills every cell before the evaluator is handed out; Evaluate only   *)
(*    reads cells.                                                         *)
(* MODE = "lazy"    (the code before it): a call reads the cell, compiles  *)
(*    if it is empty and writes it back, without synchronisation.          *)
(*                                                                         *)
(* RaceFree: no reachable state in which two goroutines are about to       *)
(* access the same cell, at least one of them writing (nothing orders      *)
(* them: there are no locks in either mode).  SeqEquivalent: every call    *)
(* returns the sequential result (a compiled regexp is a function of the   *)
(* pattern, so whichever copy a call uses the result is the same).         *)
(* TLC: holds for "create"; for "lazy" RaceFree fails in 3 steps.          *)
(*                                                                         *)
(* The scenarios (goroutines x calls x shared object x warm-up) are        *)
(* printed for the harness, which runs them on the real code under Go's    *)
(* race detector with free-running goroutines.                             *)
(***************************************************************************)
EXTENDS Integers, Sequences, TLC, Json, FiniteSets

CONSTANTS MODE, G, Calls, NCells, WorldFile

W == JsonDeserialize(WorldFile)
Procs == 1..G
Cells == 1..NCells

VARIABLES cache,     \* cell -> "empty" | "compiled"
          pc,        \* goroutine -> "idle" | "read" | "compile" | "write" | "done"
          cur,       \* goroutine -> index of the cell being accessed
          left,      \* goroutine -> calls still to make
          seen,      \* goroutine -> what the last read returned
          results    \* goroutine -> sequence of call results
vars == <<cache, pc, cur, left, seen, results>>

Init ==
  /\ cache = [c \in Cells |-> IF MODE = "create" THEN "compiled" ELSE "empty"]
  /\ pc = [g \in Procs |-> "idle"] /\ cur = [g \in Procs |-> 0] /\ left = [g \in Procs |-> Calls]
  /\ seen = [g \in Procs |-> "empty"] /\ results = [g \in Procs |-> <<>>]

StartCall(g) ==
  /\ pc[g] = "idle" /\ left[g] > 0
  /\ cur' = [cur EXCEPT ![g] = 1] /\ pc' = [pc EXCEPT ![g] = "read"] /\ left' = [left EXCEPT ![g] = @ - 1]
  /\ UNCHANGED <<cache, seen, results>>

NextCell(g) ==      \* move to the next cell or finish the call
  IF cur[g] < NCells
  THEN /\ cur' = [cur EXCEPT ![g] = @ + 1] /\ pc' = [pc EXCEPT ![g] = "read"] /\ UNCHANGED results
  ELSE /\ cur' = [cur EXCEPT ![g] = 0] /\ pc' = [pc EXCEPT ![g] = "idle"]
       /\ results' = [results EXCEPT ![g] = Append(@, "sequential-result")]

Read(g) ==
  /\ pc[g] = "read"
  /\ seen' = [seen EXCEPT ![g] = cache[cur[g]]]
  /\ IF cache[cur[g]] = "compiled" THEN NextCell(g) /\ UNCHANGED <<cache, left>>
     ELSE pc' = [pc EXCEPT ![g] = "compile"] /\ UNCHANGED <<cache, cur, left, results>>

Compile(g) ==
  /\ pc[g] = "compile"
  /\ pc' = [pc EXCEPT ![g] = IF MODE = "lazy" THEN "write" ELSE "read"]
  /\ UNCHANGED <<cache, cur, left, seen, results>>

Write(g) ==
  /\ pc[g] = "write" /\ MODE = "lazy"
  /\ cache' = [cache EXCEPT ![cur[g]] = "compiled"]
  /\ NextCell(g) /\ UNCHANGED <<left, seen>>

Next == \E g \in Procs : StartCall(g) \/ Read(g) \/ Compile(g) \/ Write(g)
Spec == Init /\ [][Next]_vars

Access(g) == IF pc[g] = "read" THEN [c |-> cur[g], w |-> FALSE] ELSE IF pc[g] = "write" THEN [c |-> cur[g], w |-> TRUE] ELSE [c |-> 0, w |-> FALSE]
RaceFree == \A g1, g2 \in Procs : (g1 # g2 /\ Access(g1).c # 0 /\ Access(g1).c = Access(g2).c) => ~(Access(g1).w \/ Access(g2).w)
SeqEquivalent == \A g \in Procs : \A k \in 1..Len(results[g]) : results[g][k] = "sequential-result"
ReadOnlyAfterCreate == [][MODE = "create" => cache' = cache]_vars
TypeOK == cache \in [Cells -> {"empty", "compiled"}] /\ \A g \in Procs : Len(results[g]) + left[g] <= Calls

\* scenario enumeration for the harness (printed once)
Scenarios ==
  {[expr |-> e, goroutines |-> k, calls |-> n, object |-> o, warm |-> w] :
     e \in 1..Len(W.exprs), k \in {2, 4, 16}, n \in {1, 3}, o \in {"shared evaluator", "shared filter", "create concurrently"}, w \in BOOLEAN}
ASSUME PrintT("CASE " \o ToJson([scenarios |-> Cardinality(Scenarios)]))
=============================================================================
