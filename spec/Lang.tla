-------------------------------- MODULE Lang --------------------------------
(***************************************************************************)
(* Abstract syntax, the printer, and the print-then-parse round trip (C16) *)
(* as a property of the specification itself.                              *)
(*                                                                         *)
(* Render(e, st) spells an expression tree as a sequence of symbols under  *)
(* a style st = [ws, paren, lit, sel, cont, dneg]:                         *)
(*   ws     "tight" no blanks where the grammar makes them optional,       *)
(*          "one" single blanks, "wide" blank-tab-newline runs             *)
(*   paren  0..2 redundant parentheses around every match / connective     *)
(*   lit    "dq" | "raw" | "bare"   how literals are spelled               *)
(*   sel    "dot" | "br" | "bt" | "ptr"   how selector parts are spelled   *)
(*   cont   in / not in spelled as contains / not contains                 *)
(*   dneg   0, 1 (`not not m`), 2 (`not (not m)`) in front of every match  *)
(* The printer encodes where the grammar makes white space mandatory       *)
(* (around and / or, after not, around word operators, after any / all,    *)
(* around as) and where parentheses are needed (a connective as left       *)
(* operand of a connective that does not bind looser, a quantifier         *)
(* anywhere but as the last or-operand).  How one string is spelled as a   *)
(* literal or as a selector part comes from the tables W.lits / W.parts    *)
(* (the spelling of single strings is checked separately: literal          *)
(* fidelity); a style that cannot spell some string of the tree yields     *)
(* Fail.                                                                   *)
(*                                                                         *)
(* Round trip (asserted by TLC for every tree the builder makes and every  *)
(* style of W.styles): parsing the rendering with the frozen grammar       *)
(* (Peg.tla) gives back exactly the tree.  Every rendering is printed for  *)
(* the harness, which hands it to the real parser.                         *)
(***************************************************************************)
EXTENDS Integers, Sequences, TLC, Json

CONSTANT WorldFile
W == JsonDeserialize(WorldFile)
INSTANCE Peg WITH G <- W.grammar, Checked <- FALSE, Traced <- FALSE

Fail == <<"<fail>">>
IsFail(s) == Len(s) = 1 /\ s[1] = "<fail>"
Cat2(a, b) == IF IsFail(a) \/ IsFail(b) THEN Fail ELSE a \o b
RECURSIVE CatAll(_, _)
CatAll(xs, i) == IF i > Len(xs) THEN <<>> ELSE Cat2(xs[i], CatAll(xs, i + 1))
CC(xs) == CatAll(xs, 1)

Word(w) == [i \in 1..Len(w) |-> SubSeq(w, i, i)]       \* a keyword / operator as symbols
Sp(st) == IF st.ws = "wide" THEN <<" ", "\t", "\n", " ">> ELSE <<" ">>        \* a mandatory blank
Osp(st) == IF st.ws = "tight" THEN <<>> ELSE IF st.ws = "wide" THEN <<"\n", " ", "\t">> ELSE <<" ">>   \* an optional one

\* W.lits[s] = [dq, raw, bare] and W.parts[p] = [ident, digits, br, bt, ptr]: symbol sequences, <<>> when not expressible
Spell(tab, s, how) == IF s \notin DOMAIN tab THEN Fail ELSE IF tab[s][how] = <<>> THEN Fail ELSE tab[s][how]
LitOf(v, st) == Spell(W.lits, v, st.lit)

RECURSIVE SelTail(_, _, _)
SelTail(path, i, st) ==
  IF i > Len(path) THEN <<>>
  ELSE LET p == path[i]
           one == IF st.sel = "dot" THEN (IF p \in DOMAIN W.parts /\ W.parts[p].ident # <<>> THEN <<".">> \o W.parts[p].ident
                                         ELSE IF p \in DOMAIN W.parts /\ W.parts[p].digits # <<>> THEN <<".">> \o W.parts[p].digits
                                         ELSE CC(<<<<"[">>, Spell(W.parts, p, "br"), <<"]">>>>))
                  ELSE CC(<<<<"[">>, Osp(st), Spell(W.parts, p, st.sel), Osp(st), <<"]">>>>)
       IN Cat2(one, SelTail(path, i + 1, st))
RECURSIVE PtrSegs(_, _)
PtrSegs(path, i) == IF i > Len(path) THEN <<>> ELSE Cat2(Cat2(<<"/">>, Spell(W.parts, path[i], "ptr")), PtrSegs(path, i + 1))
SelOf(sel, st) ==
  IF st.sel = "ptr" THEN CC(<<<<"\"">>, PtrSegs(sel.path, 1), <<"\"">>>>)
  ELSE Cat2(Spell(W.parts, sel.path[1], "ident"), SelTail(sel.path, 2, st))

RECURSIVE Wrap(_, _, _)
Wrap(s, k, st) == IF k = 0 THEN s ELSE Wrap(CC(<<<<"(">>, Osp(st), s, Osp(st), <<")">>>>), k - 1, st)

OpWords(op, st) ==
  CASE op = "==" -> <<"=", "=">> [] op = "!=" -> <<"!", "=">>
    [] op = "in" -> IF st.cont THEN Word("contains") ELSE Word("in")
    [] op = "notin" -> CC(<<Word("not"), Sp(st), IF st.cont THEN Word("contains") ELSE Word("in")>>)
    [] op = "empty" -> CC(<<Word("is"), Sp(st), Word("empty")>>)
    [] op = "notempty" -> CC(<<Word("is"), Sp(st), Word("not"), Sp(st), Word("empty")>>)
    [] op = "matches" -> Word("matches")
    [] op = "notmatches" -> CC(<<Word("not"), Sp(st), Word("matches")>>)

MatchText(e, st) ==
  LET sel == SelOf(e.sel, st) IN
  CASE e.op \in {"==", "!="} -> CC(<<sel, Osp(st), OpWords(e.op, st), Osp(st), LitOf(e.val, st)>>)
    [] e.op \in {"empty", "notempty"} -> CC(<<sel, Sp(st), OpWords(e.op, st)>>)
    [] e.op \in {"in", "notin"} -> IF st.cont THEN CC(<<sel, Sp(st), OpWords(e.op, st), Sp(st), LitOf(e.val, st)>>)
                                   ELSE CC(<<LitOf(e.val, st), Sp(st), OpWords(e.op, st), Sp(st), sel>>)
    [] OTHER -> CC(<<sel, Sp(st), OpWords(e.op, st), Sp(st), LitOf(e.val, st)>>)

EndsWithDigit(s) == Len(s) > 0 /\ s[Len(s)] \in {"0", "1", "2", "3", "4", "5", "6", "7", "8", "9"}

\* ctx: 0 = or-operand position (anything goes), 1 = and-operand, 2 = operand of not / left operand of and
RECURSIVE Rend(_, _, _)
Rend(e, st, ctx) ==
  CASE e.t = "match" ->
         LET m == Wrap(MatchText(e, st), st.paren, st)
             d == CASE st.dneg = 0 -> m
                    [] st.dneg = 1 -> CC(<<Word("not"), Sp(st), Word("not"), Sp(st), m>>)
                    [] st.dneg = 2 -> CC(<<Word("not"), Sp(st), <<"(">>, Osp(st), Word("not"), Sp(st), m, Osp(st), <<")">>>>)
         IN d
    [] e.t = "not" -> LET x == CC(<<Word("not"), Sp(st), Rend(e.e, st, 2)>>) IN Wrap(x, st.paren, st)
    [] e.t \in {"and", "or"} ->
         LET lv == IF e.t = "and" THEN 1 ELSE 0
             x == CC(<<Rend(e.l, st, lv + 1), Sp(st), Word(e.t), Sp(st), Rend(e.r, st, lv)>>)
         IN IF ctx > lv \/ st.paren > 0 THEN Wrap(x, IF st.paren = 0 THEN 1 ELSE st.paren, st) ELSE x
    [] e.t = "coll" ->
         LET inner == Rend(e.e, st, 0)
             bind == CASE e.mode = "default" -> Word(e.n1)
                       [] e.mode = "index" -> CC(<<Word(e.n1), Osp(st), <<",">>, Osp(st), <<"_">>>>)
                       [] e.mode = "value" -> CC(<<<<"_">>, Osp(st), <<",">>, Osp(st), Word(e.n2)>>)
                       [] e.mode = "both" -> CC(<<Word(e.n1), Osp(st), <<",">>, Osp(st), Word(e.n2)>>)
             cl == IF Osp(st) = <<>> /\ ~IsFail(inner) /\ EndsWithDigit(inner) THEN <<" ">> ELSE Osp(st)   \* a bare number needs a blank before }
             x == CC(<<Word(e.op), Sp(st), SelOf(e.sel, st), Sp(st), Word("as"), Sp(st), bind, Osp(st), <<"{">>, Osp(st), inner, cl, <<"}">>>>)
         IN IF ctx > 0 \/ st.paren > 0 THEN Wrap(x, IF st.paren = 0 THEN 1 ELSE st.paren, st) ELSE x

Render(e, st) == Rend(e, st, 0)

\* the tree the parser must return for a rendering in style st: selectors carry the type of their spelling
RECURSIVE Norm(_, _)
Norm(e, st) ==
  LET ty == IF st.sel = "ptr" THEN "ptr" ELSE "bexpr" IN
  CASE e.t = "match" -> [e EXCEPT !.sel.ty = ty]
    [] e.t = "not" -> [e EXCEPT !.e = Norm(e.e, st)]
    [] e.t \in {"and", "or"} -> [e EXCEPT !.l = Norm(e.l, st), !.r = Norm(e.r, st)]
    [] e.t = "coll" -> [e EXCEPT !.sel.ty = ty, !.e = Norm(e.e, st)]

---------------------------------------------------------------------------
(* tree builder (as in Cases.tla) *)
VARIABLES stk, n
vars == <<stk, n>>
MaxN == W.maxn
Fits(k, used) == k - 1 <= MaxN - used
Init == stk = <<>> /\ n = 0
Top == stk[Len(stk)]
Below == SubSeq(stk, 1, Len(stk) - 1)
PushAtom(i) == n < MaxN /\ Fits(Len(stk) + 1, n + 1) /\ stk' = Append(stk, W.atoms[i]) /\ n' = n + 1
ApplyNot == Len(stk) >= 1 /\ n < MaxN /\ Fits(Len(stk), n + 1) /\ Top.t # "not" /\ stk' = Append(Below, [t |-> "not", e |-> Top]) /\ n' = n + 1
ApplyBin(op) == /\ Len(stk) >= 2 /\ n < MaxN /\ Fits(Len(stk) - 1, n + 1)
                /\ stk' = Append(SubSeq(stk, 1, Len(stk) - 2), [t |-> op, l |-> stk[Len(stk) - 1], r |-> Top]) /\ n' = n + 1
ApplyColl(j) == /\ Len(stk) >= 1 /\ n < MaxN /\ Fits(Len(stk), n + 1)
                /\ LET c == W.colls[j] IN
                   stk' = Append(Below, [t |-> "coll", op |-> c.op, sel |-> c.sel, mode |-> c.mode, n1 |-> c.n1, n2 |-> c.n2, e |-> Top])
                /\ n' = n + 1

\* one rendering: [ok: the specification reads it back as the tree, txt, tree]
Trip(e, st) ==
  LET txt == Render(e, st) IN
  IF IsFail(txt) THEN [skip |-> TRUE, ok |-> TRUE, txt |-> <<>>, tree |-> e, cnt |-> 0]
  ELSE LET r == Run(txt, 0)  want == Norm(e, st) IN
       [skip |-> FALSE, ok |-> Accepted(r) /\ r.v.e = want, txt |-> txt, tree |-> want, cnt |-> r.cnt]

Emit ==
  /\ Len(stk) = 1
  /\ \A s \in {x \in 1..Len(W.styles) : W.styles[x].paren * n <= W.parenbudget} :     \* parser work grows fourfold per parenthesis level
       LET t == Trip(Top, W.styles[s]) IN
       IF t.skip THEN TRUE ELSE (Assert(t.ok, <<"round trip fails on the specification", W.styles[s], t.txt>>)
                   /\ PrintT("CASE " \o ToJson([inp |-> t.txt, tree |-> t.tree, rt |-> t.ok, style |-> s, cnt |-> t.cnt,
                                                 obs |-> [acc |-> "yes", ast |-> t.tree], seed |-> 0, bud |-> <<>>, errs |-> 0])))
  /\ UNCHANGED vars

Next == (\E i \in 1..Len(W.atoms) : PushAtom(i)) \/ ApplyNot \/ ApplyBin("and") \/ ApplyBin("or") \/ (\E j \in 1..Len(W.colls) : ApplyColl(j)) \/ Emit
Spec == Init /\ [][Next]_vars

\* C16 on the specification (asserted in Emit for every tree and style): every rendering reads back as the tree
=============================================================================
