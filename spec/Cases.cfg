SPECIFICATION Spec
CONSTANT WorldFile = "world.json"
INVARIANT BuilderOK
CHECK_DEADLOCK FALSE
