------------------------------- MODULE Den -------------------------------
(***************************************************************************)
(* Reference semantics of go-bexpr expressions over abstract Go values.    *)
(*                                                                         *)
(* Written from README.md, the godoc comments of bexpr.go / options.go /   *)
(* grammar/ast.go (NotPresentDisposition), the documentation of            *)
(* mitchellh/pointerstructure v1.2.1 (the selector walk is delegated to    *)
(* it) and the statements of properties C01-C09.  It is compositional      *)
(* (the outcome of a node is a function of the outcomes of its children),  *)
(* which is what makes the laws of C03/C04/C06/C07/C08 provable on it.     *)
(*                                                                         *)
(* Outcomes:  "T" (true, nil)   "F" (false, nil)   "E" (false, error)      *)
(*            "?" the case depends on behaviour of the pointerstructure /  *)
(*                mapstructure dependency that is not modelled (maps keyed *)
(*                by arrays, structs, pointers): no expectation            *)
(*                                                                         *)
(* Abstract values (AV) - records tagged by k:                             *)
(*  [k:"nil"]                       nil interface (JSON null)              *)
(*  [k:"bool", t, v]                t = Go type name, v = TRUE/FALSE       *)
(*  [k:"int"|"uint", t, v:[neg,m]]  m = four 16-bit limbs (exact 64 bit)   *)
(*  [k:"f32"|"f64", t, v]           v = IEEE bit pattern (hex) or "nan"    *)
(*  [k:"str", t, v]                 string kinds (t = "string" or a name)  *)
(*  [k:"jnum", v]                   encoding/json.Number with text v       *)
(*  [k:"ptr", to]  [k:"nilptr"]     pointers                               *)
(*  [k:"list", arr, et, v(, bs)]    slice/array; et = static element type  *)
(*  [k:"map", kt, et, v]            v = <<[key, val]>> ascending key order *)
(*  [k:"struct", t, f]              f = <<[n, tags, exp, v]>>              *)
(*  [k:"opaque", kind]              chan, func, complex, uintptr, ...      *)
(* Static types - records tagged by c:                                     *)
(*  iface | bool | int,bits | uint,bits | f32 | f64 | str | ptr,to |       *)
(*  list | map | struct | opaque                                           *)
(***************************************************************************)
EXTENDS Integers, Sequences, TLC, Lit

CONSTANT RegexTab   \* pattern -> [bad |-> TRUE] or [bad |-> FALSE, yes |-> <<strings that match>>]

None == [k |-> "none"]
B(b) == IF b THEN "T" ELSE "F"
Neg3(x) == IF x = "T" THEN "F" ELSE IF x = "F" THEN "T" ELSE x       \* E stays E (and "?" stays "?")
AndTab(a, b) == IF a = "T" THEN b ELSE a          \* and: A's outcome if A is F or E, else B's
OrTab(a, b) == IF a = "F" THEN b ELSE a           \* or:  A's outcome if A is T or E, else B's

Prims == {"bool", "int", "uint", "f32", "f64", "str"}
Class(v) == IF v.k = "jnum" THEN "str" ELSE IF v.k \in Prims THEN v.k ELSE "other"
Valid(v) == v.k \notin {"nil", "nilptr"}

RECURSIVE DerefAll(_)
DerefAll(v) == IF v.k = "ptr" THEN DerefAll(v.to) ELSE v
Indirect1(v) == IF v.k = "ptr" THEN v.to ELSE v

RECURSIVE DerefT(_)
DerefT(t) == IF t.c = "ptr" THEN DerefT(t.to) ELSE t
TClass(t) == IF t.c \in Prims THEN t.c ELSE "other"

---------------------------------------------------------------------------
(* literal read in a kind class, and comparison with a value of that class *)
ReadIn(c, lit) ==
  CASE c = "bool" -> ReadBool(lit)
    [] c = "int"  -> ReadInt(lit)
    [] c = "uint" -> ReadUint(lit)
    [] c = "f32"  -> ReadFloat(lit, 32)
    [] c = "f64"  -> ReadFloat(lit, 64)
    [] c = "str"  -> [r |-> "ok", s |-> lit]

SameAs(c, rd, v) ==
  CASE c = "bool" -> rd.b = v.v
    [] c = "int"  -> rd.neg = v.v.neg /\ rd.m = v.v.m
    [] c = "uint" -> rd.m = v.v.m
    [] c = "f32"  -> FloatEq(rd.bits, v.v)
    [] c = "f64"  -> FloatEq(rd.bits, v.v)
    [] c = "str"  -> rd.s = v.v

---------------------------------------------------------------------------
(* match operators on a resolved value *)
MatchEq(rv, lit) ==
  LET c == Class(rv) IN
  IF c = "other" THEN "E"
  ELSE LET rd == ReadIn(c, lit) IN IF rd.r # "ok" THEN "E" ELSE B(SameAs(c, rd, rv))

InMap(m, lit) ==
  LET kc == m.kt.c IN
  IF kc \in Prims THEN
    LET rd == ReadIn(kc, lit) IN
    IF rd.r # "ok" THEN "E"
    ELSE IF kc = "int" /\ ~FitsS(rd.neg, rd.m, m.kt.bits) THEN "F"
    ELSE IF kc = "uint" /\ ~FitsU(rd.m, m.kt.bits) THEN "F"
    ELSE B(\E i \in 1..Len(m.v) : SameAs(kc, rd, m.v[i].key))
  ELSE IF kc = "iface" THEN
    B(\E i \in 1..Len(m.v) : m.v[i].key.k = "str" /\ m.v[i].key.t = "string" /\ m.v[i].key.v = lit)
  ELSE "E"

\* []interface{}: every element is judged in its own kind; a literal that is not even
\* syntactically a value of that kind cannot be equal to it and is skipped; nil equals nothing
RECURSIVE InIface(_, _, _)
InIface(vs, i, lit) ==
  IF i > Len(vs) THEN "F"
  ELSE LET e == DerefAll(vs[i]) IN
    IF ~Valid(e) THEN InIface(vs, i + 1, lit)
    ELSE LET c == Class(e) IN
      IF c = "other" THEN "E"
      ELSE LET rd == ReadIn(c, lit) IN
        IF rd.r = "syntax" THEN InIface(vs, i + 1, lit)
        ELSE IF rd.r # "ok" THEN "E"
        ELSE IF SameAs(c, rd, e) THEN "T"
        ELSE InIface(vs, i + 1, lit)

InList(l, lit) ==
  LET et == DerefT(l.et) IN
  IF et.c = "iface" THEN InIface(l.v, 1, lit)
  ELSE LET c == TClass(et) IN
    IF c = "other" THEN "E"
    ELSE LET rd == ReadIn(c, lit) IN
      IF rd.r # "ok" THEN "E"
      ELSE B(\E i \in 1..Len(l.v) : LET e == DerefAll(l.v[i]) IN Valid(e) /\ SameAs(c, rd, e))

MatchIn(rv, lit) ==
  LET c == Class(rv) IN
  IF c = "str" THEN B(Contains(rv.v, lit))
  ELSE IF c # "other" THEN "E"
  ELSE IF rv.k = "map" THEN InMap(rv, lit)
  ELSE IF rv.k = "list" THEN InList(rv, lit)
  ELSE "E"

MatchEmpty(rv) ==
  IF rv.k \in {"list", "map"} THEN B(Len(rv.v) = 0)
  ELSE IF Class(rv) = "str" THEN B(rv.v = "")
  ELSE IF rv.k = "opaque" /\ rv.kind = "chan" THEN "T"
  ELSE "E"

InSeq(x, s) == \E i \in 1..Len(s) : s[i] = x
MatchRe(rv, pat) ==
  LET txt == IF Class(rv) = "str" THEN [ok |-> TRUE, s |-> rv.v]
             ELSE IF rv.k = "list" /\ "bs" \in DOMAIN rv THEN [ok |-> TRUE, s |-> rv.bs]
             ELSE [ok |-> FALSE]
  IN IF ~txt.ok THEN "E"
     ELSE IF pat \notin DOMAIN RegexTab THEN Assert(FALSE, <<"pattern missing from RegexTab", pat>>)
     ELSE IF RegexTab[pat].bad THEN "E"
     ELSE IF ~InSeq(txt.s, RegexTab[pat].dom) THEN Assert(FALSE, <<"string missing from RegexTab", pat, txt.s>>)
     ELSE B(InSeq(txt.s, RegexTab[pat].yes))

\* a json.Number is compared as the number it spells: a base-10 int64 if it is one, else a float64
Narrow(v) ==
  IF v.k # "jnum" THEN [ok |-> TRUE, v |-> v]
  ELSE LET i == ReadInt10(v.v) IN
    IF i.r = "ok" THEN [ok |-> TRUE, v |-> [k |-> "int", t |-> "int64", v |-> [neg |-> i.neg, m |-> i.m]]]
    ELSE LET f == ReadFloat(v.v, 64) IN
      IF f.r = "ok" THEN [ok |-> TRUE, v |-> [k |-> "f64", t |-> "float64", v |-> f.bits]]
      ELSE [ok |-> FALSE]

PosOp(op) == CASE op = "!=" -> "==" [] op = "notin" -> "in" [] op = "notempty" -> "empty"
               [] op = "notmatches" -> "matches" [] OTHER -> op
IsNegOp(op) == op \in {"!=", "notin", "notempty", "notmatches"}

MatchPos(op, rv, lit) ==
  CASE op = "==" -> MatchEq(rv, lit)
    [] op = "in" -> MatchIn(rv, lit)
    [] op = "empty" -> MatchEmpty(rv)
    [] op = "matches" -> MatchRe(rv, lit)

MatchOp(op, v, lit) ==
  LET n == Narrow(v) IN
  IF ~n.ok THEN "E"
  ELSE LET r == MatchPos(PosOp(op), Indirect1(n.v), lit) IN IF IsNegOp(op) THEN Neg3(r) ELSE r

\* the documented table for a key absent from a map
AbsentTab(op) == IF op \in {"==", "in", "matches", "notempty"} THEN "F" ELSE "T"

---------------------------------------------------------------------------
(* the selector walk: pointerstructure.Get *)
Ok(v) == [r |-> "ok", v |-> v]
Nf == [r |-> "nf"]
Er == [r |-> "err"]
Unm == [r |-> "unm"]     \* behaviour of the dependency that this specification does not model (outcome "?")

KeyOf(kt, part) ==
  LET p0 == IF part = "" THEN "0" ELSE part IN
  CASE kt.c = "str" \/ kt.c = "iface" -> [r |-> "ok", s |-> part]
    [] kt.c = "int"  -> LET rd == ReadInt(p0) IN IF rd.r = "ok" /\ FitsS(rd.neg, rd.m, kt.bits) THEN rd ELSE Er
    [] kt.c = "uint" -> LET rd == ReadUint(p0) IN IF rd.r = "ok" /\ FitsU(rd.m, kt.bits) THEN rd ELSE Er
    [] kt.c = "bool" -> LET rd == ReadBool(part) IN
                        IF rd.r = "ok" THEN rd ELSE IF part = "" THEN [r |-> "ok", b |-> FALSE] ELSE Er
    [] kt.c = "f32"  -> LET rd == ReadFloat(p0, 32) IN IF rd.r = "ok" THEN rd ELSE Er
    [] kt.c = "f64"  -> LET rd == ReadFloat(p0, 64) IN IF rd.r = "ok" THEN rd ELSE Er
    [] OTHER -> Unm       \* array / struct / pointer / ... keys: mapstructure's weak decoding of the part is not modelled

KeyMatches(kt, rd, key) ==
  IF kt.c = "iface" THEN key.k = "str" /\ key.t = "string" /\ key.v = rd.s
  ELSE SameAs(kt.c, rd, key)

GetMap(m, part) ==
  LET rd == KeyOf(m.kt, part) IN
  IF rd.r = "unm" THEN Unm
  ELSE IF rd.r # "ok" THEN Er
  ELSE LET hits == {i \in 1..Len(m.v) : KeyMatches(m.kt, rd, m.v[i].key)} IN
    IF hits = {} THEN Nf ELSE Ok(m.v[CHOOSE i \in hits : TRUE].val)

GetList(l, part) ==
  LET rd == ReadInt(IF part = "" THEN "0" ELSE part) IN
  IF rd.r # "ok" \/ rd.neg THEN Er
  ELSE LET n == SmallNat(rd.m) IN IF n < 0 \/ n >= Len(l.v) THEN Er ELSE Ok(l.v[n + 1])

TagOf(f, tagName) == IF tagName \in DOMAIN f.tags THEN f.tags[tagName] ELSE ""
CutComma(s) == IF \E i \in 1..Len(s) : Ch(s, i) = ","
               THEN SubSeq(s, 1, (CHOOSE i \in 1..Len(s) : Ch(s, i) = "," /\ \A j \in 1..(i - 1) : Ch(s, j) # ",") - 1)
               ELSE s

\* exported fields only; the name under the configured tag wins over the Go name; "-" hides a field
RECURSIVE StructScan(_, _, _, _, _)
StructScan(fs, i, part, tagName, acc) ==     \* acc = [found, ignored, v]
  IF i > Len(fs) THEN (IF ~acc.found THEN Nf ELSE IF acc.ignored THEN Er ELSE Ok(acc.v))
  ELSE LET f == fs[i] IN
    IF ~f.exp THEN StructScan(fs, i + 1, part, tagName, acc)
    ELSE LET raw == TagOf(f, tagName) IN
      IF raw # "" THEN
        LET tg == CutComma(raw) IN
        IF Contains(tg, "|") THEN Er
        ELSE IF tg = "-" THEN
          StructScan(fs, i + 1, part, tagName,
                     IF f.n = part THEN [acc EXCEPT !.found = TRUE, !.ignored = TRUE] ELSE acc)
        ELSE IF tg = part THEN Ok(f.v)
        ELSE StructScan(fs, i + 1, part, tagName, acc)
      ELSE IF f.n = part THEN StructScan(fs, i + 1, part, tagName, [acc EXCEPT !.found = TRUE, !.v = f.v])
      ELSE StructScan(fs, i + 1, part, tagName, acc)

GetStruct(s, part, tag) ==
  StructScan(s.f, 1, part, IF tag = "" THEN "pointer" ELSE tag, [found |-> FALSE, ignored |-> FALSE, v |-> None])

\* value transformation hooks of the model family
Hook(h, v) ==
  CASE h = "none" \/ h = "id" -> Ok(v)
    [] h = "unwrap" -> LET d == DerefAll(v) IN
                       IF d.k = "struct" /\ d.t = "zoo.Wrapper" THEN Ok(d.f[1].v) ELSE Ok(v)
    [] h = "nilret" -> Er
    [] h = "label" -> IF v.k = "str" /\ v.t = "zoo.NString" THEN Ok([k |-> "str", t |-> "string", v |-> "n:" \o v.v]) ELSE Ok(v)
    [] h = "nildef" -> IF v.k \in {"nil", "nilptr"} THEN Ok([k |-> "str", t |-> "string", v |-> "dflt"]) ELSE Ok(v)

RawStep(v, part, cfg) ==            \* one step of pointerstructure.Get, before the value transformation hook
  LET d == DerefAll(v) IN
  CASE d.k = "map" -> GetMap(d, part)
    [] d.k = "list" -> GetList(d, part)
    [] d.k = "struct" -> GetStruct(d, part, cfg.tag)
    [] OTHER -> Er
GetStep(v, part, cfg) ==
  LET r == RawStep(v, part, cfg) IN IF r.r # "ok" THEN r ELSE Hook(cfg.hook, r.v)

\* what a value transformation hook is handed, in call order (the hook runs after every successful step, on the value as found):
\* the kind of each value (+ length of containers, text of strings) - the resolve events of one Get
Digest(v) == IF v.k \in {"list", "map"} THEN v.k \o ToString(Len(v.v)) ELSE IF v.k = "str" THEN "str:" \o v.v ELSE v.k
RECURSIVE GetTr(_, _, _, _)
GetTr(v, path, i, cfg) ==
  IF i > Len(path) THEN <<>>
  ELSE LET r == RawStep(v, path[i], cfg) IN
    IF r.r # "ok" THEN <<>>
    ELSE <<Digest(r.v)>> \o (LET h == Hook(cfg.hook, r.v) IN IF h.r # "ok" THEN <<>> ELSE GetTr(h.v, path, i + 1, cfg))

RECURSIVE Get(_, _, _, _)
Get(v, path, i, cfg) ==
  IF i > Len(path) THEN Ok(v)
  ELSE LET r == GetStep(v, path[i], cfg) IN IF r.r # "ok" THEN r ELSE Get(r.v, path, i + 1, cfg)

\* a key absent from a map: the last step of a path of two or more parts whose parent is a map
ParentIsMap(d, path, cfg) ==
  Len(path) >= 2 /\ LET p == Get(d, SubSeq(path, 1, Len(path) - 1), 1, cfg) IN p.r = "ok" /\ p.v.k = "map"

\* bindings of enclosing any/all, innermost last: [name, kind: "val", val] or [name, kind: "path", path]
RECURSIVE Rewrite(_, _, _)
Rewrite(path, env, i) ==
  IF i = 0 THEN [r |-> "path", path |-> path]
  ELSE LET lv == env[i] IN
    IF path[1] = lv.name
    THEN IF lv.kind = "val"
         THEN (IF Len(path) > 1 THEN [r |-> "err"] ELSE [r |-> "val", v |-> lv.val])
         ELSE Rewrite(lv.path \o Tail(path), env, i - 1)
    ELSE Rewrite(path, env, i - 1)

\* result: [r: "ok", v] | [r: "absent"] | [r: "err"]
Resolve(d, path, env, cfg) ==
  LET w == IF Len(path) = 0 THEN [r |-> "path", path |-> path] ELSE Rewrite(path, env, Len(env)) IN
  IF w.r = "err" THEN Er
  ELSE IF w.r = "val" THEN Ok(w.v)
  ELSE LET g == Get(d, w.path, 1, cfg) IN
    IF g.r = "ok" THEN g
    ELSE IF g.r = "unm" THEN Unm
    ELSE IF g.r = "err" THEN Er
    ELSE IF cfg.unknown.k # "none" THEN Ok(cfg.unknown)
    ELSE IF ParentIsMap(d, w.path, cfg) THEN [r |-> "absent"]
    ELSE Er

\* the hook calls made while resolving a selector (getValue): the walk itself and, when it ends with "not found" and no unknown
\* value is configured, the walk to the parent again (evaluateNotPresent asks whether the parent is a map)
ResolveTr(d, path, env, cfg) ==
  LET w == IF Len(path) = 0 THEN [r |-> "path", path |-> path] ELSE Rewrite(path, env, Len(env)) IN
  IF w.r \in {"err", "val"} THEN <<>>
  ELSE LET g == Get(d, w.path, 1, cfg)
           t == GetTr(d, w.path, 1, cfg)
       IN IF g.r \in {"ok", "unm", "err"} \/ cfg.unknown.k # "none" \/ Len(w.path) < 2 THEN t ELSE t \o t

---------------------------------------------------------------------------
(* expressions *)
IntAV(i) == [k |-> "int", t |-> "int", v |-> [neg |-> FALSE, m |-> <<i, 0, 0, 0>>]]
StrAV(s) == [k |-> "str", t |-> "string", v |-> s]

\* bindings pushed for element i of a collection (innermost last, in the order the evaluator pushes them)
BindList(e, i) ==
  LET p == e.sel.path \o <<ToString(i - 1)>> IN
  (IF e.mode \in {"index", "both"} THEN <<[name |-> e.n1, kind |-> "val", val |-> IntAV(i - 1)]>> ELSE <<>>)
  \o (IF e.mode = "default" THEN <<[name |-> e.n1, kind |-> "path", path |-> p]>> ELSE <<>>)
  \o (IF e.mode \in {"value", "both"} THEN <<[name |-> e.n2, kind |-> "path", path |-> p]>> ELSE <<>>)
BindMap(e, key) ==
  LET p == e.sel.path \o <<key.v>> IN
  (IF e.mode = "default" THEN <<[name |-> e.n1, kind |-> "val", val |-> key]>> ELSE <<>>)
  \o (IF e.mode \in {"index", "both"} THEN <<[name |-> e.n1, kind |-> "val", val |-> key]>> ELSE <<>>)
  \o (IF e.mode \in {"value", "both"} THEN <<[name |-> e.n2, kind |-> "path", path |-> p]>> ELSE <<>>)

RECURSIVE Den(_, _, _, _), Fold(_, _, _, _, _, _)

\* left fold over the elements: the first decisive element or the first error ends it
Fold(e, c, i, d, env, cfg) ==
  IF i > Len(c.v) THEN B(e.op = "all")
  ELSE IF e.mode = "both" /\ e.n1 = e.n2 THEN "E"
  ELSE LET b == IF c.k = "map" THEN BindMap(e, c.v[i].key) ELSE BindList(e, i)
           r == Den(e.e, d, env \o b, cfg)
       IN IF r = "E" \/ r = "?" THEN r
          ELSE IF (r = "T" /\ e.op = "any") \/ (r = "F" /\ e.op = "all") THEN r
          ELSE Fold(e, c, i + 1, d, env, cfg)

Den(e, d, env, cfg) ==
  CASE e.t = "not" -> Neg3(Den(e.e, d, env, cfg))
    [] e.t = "and" -> LET a == Den(e.l, d, env, cfg) IN IF a = "T" THEN Den(e.r, d, env, cfg) ELSE a
    [] e.t = "or"  -> LET a == Den(e.l, d, env, cfg) IN IF a = "F" THEN Den(e.r, d, env, cfg) ELSE a
    [] e.t = "match" ->
         LET r == Resolve(d, e.sel.path, env, cfg) IN
         IF r.r = "unm" THEN "?"
         ELSE IF r.r = "err" THEN "E"
         ELSE IF r.r = "absent" THEN AbsentTab(e.op)
         ELSE MatchOp(e.op, r.v, e.val)
    [] e.t = "coll" ->
         LET r == Resolve(d, e.sel.path, env, cfg) IN
         IF r.r = "unm" THEN "?"
         ELSE IF r.r = "err" THEN "E"
         ELSE IF r.r = "absent" THEN B(e.op = "all")
         ELSE LET c == r.v IN
           IF c.k = "map" THEN
             (IF c.kt.c = "str" /\ c.kt.t = "string" THEN Fold(e, c, 1, d, env, cfg) ELSE "E")
           ELSE IF c.k = "list" THEN Fold(e, c, 1, d, env, cfg)
           ELSE "E"

Outcome(e, d, cfg) == Den(e, d, <<>>, cfg)

\* how the selector of a top-level match / quantifier resolves when no unknown value is configured:
\* "ok", "absent" (key absent from a map: the documented table applies), "nf" (a key or field is absent but the
\* parent is not a map, or the path has one part: an error), "err" (any other failure)
SelClass(e, d, cfg) ==
  LET c0 == [cfg EXCEPT !.unknown = None]
      g == Get(d, e.sel.path, 1, c0)
  IN IF g.r = "ok" THEN "ok" ELSE IF g.r = "err" THEN "err" ELSE IF g.r = "unm" THEN "unm" ELSE IF ParentIsMap(d, e.sel.path, c0) THEN "absent" ELSE "nf"

\* the elements of a top-level quantifier as the specification sees them: [ok, kind, parts]
ElemParts(e, d, cfg) ==
  LET r == Resolve(d, e.sel.path, <<>>, cfg) IN
  IF r.r # "ok" THEN [ok |-> FALSE, kind |-> "", parts |-> <<>>]
  ELSE IF r.v.k = "map" /\ r.v.kt.c = "str" /\ r.v.kt.t = "string"
       THEN [ok |-> TRUE, kind |-> "map", parts |-> [i \in 1..Len(r.v.v) |-> r.v.v[i].key.v]]
  ELSE IF r.v.k = "list" THEN [ok |-> TRUE, kind |-> "list", parts |-> [i \in 1..Len(r.v.v) |-> ToString(i - 1)]]
  ELSE [ok |-> FALSE, kind |-> "", parts |-> <<>>]
DefaultCfg == [tag |-> "bexpr", hook |-> "none", unknown |-> None]
=============================================================================
