------------------------------ MODULE Coerce ------------------------------
(***************************************************************************)
(* The public coercion functions CoerceBool / CoerceInt64 / CoerceUint64 / *)
(* CoerceFloat32 / CoerceFloat64 as functions from literal text to a value *)
(* or an error class (syntax / range), for every text of the world.        *)
(* One state per text; the harness calls the real functions and compares   *)
(* value (all 64 bits) and error class.                                    *)
(***************************************************************************)
EXTENDS Integers, Sequences, TLC, Json

CONSTANT WorldFile
W == JsonDeserialize(WorldFile)
INSTANCE Lit WITH FloatTab <- W.floattab

VARIABLE i
Init == i = 0
Pick == i = 0 /\ \E j \in 1..Len(W.texts) : i' = j
Emit ==
  /\ i > 0
  /\ LET s == W.texts[i] IN
     PrintT("CASE " \o ToJson([n |-> i, b |-> ReadBool(s), i |-> ReadInt(s), u |-> ReadUint(s),
                               f64 |-> ReadFloat(s, 64), f32 |-> ReadFloat(s, 32)]))
  /\ UNCHANGED i
Next == Pick \/ Emit
Spec == Init /\ [][Next]_i

\* range errors only exist for numbers; a reading is a value xor an error class
Shape ==
  i > 0 => LET s == W.texts[i] IN
    /\ ReadBool(s).r \in {"ok", "syntax"}
    /\ ReadInt(s).r \in {"ok", "syntax", "range"} /\ ReadUint(s).r \in {"ok", "syntax", "range"}
    /\ (ReadInt(s).r = "ok" /\ SubSeq(s, 1, 1) \notin {"+", "-"} => ReadUint(s).r = "ok" /\ ReadUint(s).m = ReadInt(s).m)   \* same digits, same magnitude
    /\ (ReadUint(s).r = "syntax" /\ s # "" /\ SubSeq(s, 1, 1) \notin {"+", "-"} => ReadInt(s).r = "syntax")
=============================================================================
