-------------------------------- MODULE Peg --------------------------------
(***************************************************************************)
(* The pigeon parsing engine (grammar/grammar.go: parseExpr and friends)   *)
(* as a recursive interpreter over a rule table, and the semantic actions  *)
(* of the bexpr grammar.                                                   *)
(*                                                                         *)
(* The grammar G is data (spec/grammar_frozen.json, a transcription of     *)
(* grammar.peg that is NOT regenerated from the tree under test): a        *)
(* sequence of rules whose bodies are nodes [t, es, label, name, chars,    *)
(* syms, sem] with t in choice seq act lab ref lit cls any and not opt     *)
(* star plus andcode.                                                      *)
(*                                                                         *)
(* Input is a sequence of symbols: an ASCII character stands for itself;   *)
(* "<L>" a non-ASCII letter, "<N>" a non-ASCII number, "<S>" any other     *)
(* valid rune, "<0>" NUL, "<B>" a byte that is not valid UTF-8.            *)
(*                                                                         *)
(* The interpreter follows the engine step by step in what is observable:  *)
(*  - cnt counts one step per parseExpr call (Stats.ExprCnt); when it      *)
(*    exceeds the budget the parse is aborted (panic(errMaxExprCnt),       *)
(*    recovered by parse: value nil, error non-nil);                       *)
(*  - errs counts the errors added to the parser's error list; the list is *)
(*    never rolled back on backtracking: an action error or a failing      *)
(*    &{...} predicate on an abandoned path still fails the parse;         *)
(*  - advancing onto a byte that is not valid UTF-8 adds an error;         *)
(*  - labels live in frames (pushV/popV): rules, choice alternatives,       *)
(*    labels, &, !, ?, *, + open a frame; sequences and actions do not,    *)
(*    so an action sees the labels of its own sequence.                    *)
(* grammar.Parse returns (value, error): value = v if ok else nil;         *)
(* error # nil  <=>  ~ok \/ errs > 0 \/ aborted.                           *)
(***************************************************************************)
EXTENDS Integers, Sequences, TLC

CONSTANTS G,       \* [rules |-> <<[name, expr]>>]
          Checked, \* assert the engine invariants (Contract) on every step
          Traced   \* fold (kind, position) of every step into the step-trace hash (costs about a third of the run time)

Nil == [k |-> "nil"]
Str(s) == [k |-> "str", s |-> s]
EmptyF == [x \in {} |-> Nil]

RuleIdx(name) == CHOOSE i \in 1..Len(G.rules) : G.rules[i].name = name
RuleOf(name) == G.rules[RuleIdx(name)].expr

RECURSIVE Cat(_, _)
Cat(syms, i) == IF i > Len(syms) THEN "" ELSE syms[i] \o Cat(syms, i + 1)     \* matched text as a string
Text(syms) == Cat(syms, 1)

---------------------------------------------------------------------------
(* strconv.Unquote on symbol sequences (the forms the grammar can hand it) *)
HexVal(c) ==
  CASE c = "0" -> 0 [] c = "1" -> 1 [] c = "2" -> 2 [] c = "3" -> 3 [] c = "4" -> 4 [] c = "5" -> 5 [] c = "6" -> 6 [] c = "7" -> 7
    [] c = "8" -> 8 [] c = "9" -> 9 [] c \in {"a", "A"} -> 10 [] c \in {"b", "B"} -> 11 [] c \in {"c", "C"} -> 12
    [] c \in {"d", "D"} -> 13 [] c \in {"e", "E"} -> 14 [] c \in {"f", "F"} -> 15 [] OTHER -> 99

\* printable ASCII by code point 32..126 (the characters < and > are not part of the model alphabet)
Printable == <<" ", "!", "\"", "#", "$", "%", "&", "'", "(", ")", "*", "+", ",", "-", ".", "/",
               "0", "1", "2", "3", "4", "5", "6", "7", "8", "9", ":", ";", "<lt>", "=", "<gt>", "?",
               "@", "A", "B", "C", "D", "E", "F", "G", "H", "I", "J", "K", "L", "M", "N", "O",
               "P", "Q", "R", "S", "T", "U", "V", "W", "X", "Y", "Z", "[", "\\", "]", "^", "_",
               "`", "a", "b", "c", "d", "e", "f", "g", "h", "i", "j", "k", "l", "m", "n", "o",
               "p", "q", "r", "s", "t", "u", "v", "w", "x", "y", "z", "{", "|", "}", "~">>
ByteSym(n) == IF n = 0 THEN "<0>" ELSE IF n = 9 THEN "\t" ELSE IF n = 10 THEN "\n" ELSE IF n = 13 THEN "\r"
              ELSE IF n >= 32 /\ n <= 126 THEN Printable[n - 31] ELSE "<X>"

\* a rune written as \u / \U escape, as a symbol of the model alphabet: ASCII exactly, beyond ASCII the class of the code point for
\* the code points listed here (letters, numbers, others), "?" for any other code point (the model has no Unicode tables)
RuneSym(v) ==
  IF v < 128 THEN ByteSym(v)
  ELSE IF v \in {170, 233, 453, 945, 1058, 26085, 12384} THEN "<L>"
  ELSE IF v \in {178, 189, 1635, 8551} THEN "<N>"
  ELSE IF v \in {128, 160, 8232, 8482, 9731, 12288, 55295, 57344, 65533, 128512, 1114111} THEN "<S>"
  ELSE "?"

RECURSIVE HexNum(_, _, _, _)
HexNum(b, i, n, acc) ==       \* value of the n hex digits b[i..i+n-1], -1 if there are fewer or another character is among them
  IF n = 0 THEN acc ELSE IF i > Len(b) \/ HexVal(b[i]) > 15 THEN -1
  ELSE HexNum(b, i + 1, n - 1, IF acc > 69631 THEN 2000000 ELSE 16 * acc + HexVal(b[i]))      \* beyond U+10FFFF the exact value does not matter
OctVal(c) == IF c \in {"0", "1", "2", "3", "4", "5", "6", "7"} THEN HexVal(c) ELSE 99
\* is the escape starting at b[i] a byte escape (\xHH or \NNN) whose value is a UTF-8 continuation byte?
ContEscape(b, i) ==
  /\ i + 3 <= Len(b) /\ b[i] = "\\"
  /\ \/ (b[i + 1] = "x" /\ HexNum(b, i + 2, 2, 0) >= 128 /\ HexNum(b, i + 2, 2, 0) <= 191)
     \/ (OctVal(b[i + 1]) < 8 /\ OctVal(b[i + 2]) < 8 /\ OctVal(b[i + 3]) < 8
         /\ 64 * OctVal(b[i + 1]) + 8 * OctVal(b[i + 2]) + OctVal(b[i + 3]) \in 128..191)
\* a byte written as escape: below 128 the character; above, an invalid byte on its own - unless it starts a UTF-8 sequence that
\* the following byte escapes continue (then the bytes may form a rune: not followed by this model)
ByteEsc(b, next, n, acc) ==
  IF n > 255 THEN [r |-> "err"]
  ELSE IF n >= 194 /\ ContEscape(b, next) THEN [r |-> "unm"]
  ELSE [r |-> "go", s |-> IF n >= 128 THEN "<X>" ELSE ByteSym(n)]

\* result: [r |-> "ok", s |-> string] | [r |-> "err"] | [r |-> "unm"] (an escape form this model does not follow)
RECURSIVE UnqDouble(_, _, _)
UnqDouble(b, i, acc) ==      \* b = symbols between the quotes
  IF i > Len(b) THEN [r |-> "ok", s |-> acc]
  ELSE LET c == b[i] IN
    IF c = "\n" THEN [r |-> "err"]
    ELSE IF c # "\\" THEN UnqDouble(b, i + 1, acc \o (IF c = "<B>" THEN "<S>" ELSE c))   \* an invalid byte reads as U+FFFD
    ELSE IF i = Len(b) THEN [r |-> "err"]
    ELSE LET e == b[i + 1] IN
      CASE e = "n" -> UnqDouble(b, i + 2, acc \o "\n")
        [] e = "t" -> UnqDouble(b, i + 2, acc \o "\t")
        [] e = "r" -> UnqDouble(b, i + 2, acc \o "\r")
        [] e = "\\" -> UnqDouble(b, i + 2, acc \o "\\")
        [] e = "\"" -> UnqDouble(b, i + 2, acc \o "\"")
        [] e \in {"a", "b", "f", "v"} -> UnqDouble(b, i + 2, acc \o "<X>")
        [] e = "x" -> LET n == HexNum(b, i + 2, 2, 0) IN
                      IF n < 0 THEN [r |-> "err"]
                      ELSE LET x == ByteEsc(b, i + 4, n, acc) IN IF x.r = "go" THEN UnqDouble(b, i + 4, acc \o x.s) ELSE x
        [] e \in {"0", "1", "2", "3", "4", "5", "6", "7"} ->
                      IF i + 3 > Len(b) \/ OctVal(b[i + 2]) > 7 \/ OctVal(b[i + 3]) > 7 THEN [r |-> "err"]
                      ELSE LET n == 64 * OctVal(e) + 8 * OctVal(b[i + 2]) + OctVal(b[i + 3])
                               x == ByteEsc(b, i + 4, n, acc)
                           IN IF x.r = "go" THEN UnqDouble(b, i + 4, acc \o x.s) ELSE x
        [] e \in {"u", "U"} ->
                      LET w == IF e = "u" THEN 4 ELSE 8
                          v == HexNum(b, i + 2, w, 0)
                      IN IF v < 0 \/ v > 1114111 \/ (v >= 55296 /\ v <= 57343) THEN [r |-> "err"]
                         ELSE IF RuneSym(v) = "?" THEN [r |-> "unm"]
                         ELSE UnqDouble(b, i + 2 + w, acc \o RuneSym(v))
        [] OTHER -> [r |-> "err"]

RECURSIVE DropCR(_, _)
DropCR(b, i) == IF i > Len(b) THEN "" ELSE (IF b[i] = "\r" THEN "" ELSE b[i]) \o DropCR(b, i + 1)

Unquote(syms) ==       \* syms includes the delimiters
  LET body == SubSeq(syms, 2, Len(syms) - 1) IN
  IF syms[1] = "`" THEN [r |-> "ok", s |-> DropCR(body, 1)]
  ELSE UnqDouble(body, 1, "")

---------------------------------------------------------------------------
(* pointerstructure.Parse on one path part: ~1 -> /, then ~0 -> ~ *)
RECURSIVE Replace(_, _, _, _)
Replace(s, i, from, to) ==        \* s a string; from a 2-character string
  IF i > Len(s) THEN ""
  ELSE IF i < Len(s) /\ SubSeq(s, i, i + 1) = from THEN to \o Replace(s, i + 2, from, to)
  ELSE SubSeq(s, i, i) \o Replace(s, i + 1, from, to)
UnescapePart(s) == Replace(Replace(s, 1, "~1", "/"), 1, "~0", "~")

RECURSIVE JoinWith(_, _, _)
JoinWith(parts, i, sep) == IF i > Len(parts) THEN "" ELSE (IF i > 1 THEN sep ELSE "") \o parts[i] \o JoinWith(parts, i + 1, sep)

---------------------------------------------------------------------------
(* semantic actions: sem names the meaning of the grammar's code block; labs = labels in scope; txt = matched symbols *)
Expr(e) == [k |-> "expr", e |-> e]
StrsOf(v) == IF v.k = "nil" THEN <<>> ELSE [i \in 1..Len(v.es) |-> v.es[i].s]      \* a * of strings (nil when empty)

Act(sem, labs, txt) ==
  CASE sem = "pass:expr" -> [v |-> labs["expr"], err |-> FALSE, unm |-> FALSE]
    [] sem = "pass:ident" -> [v |-> labs["ident"], err |-> FALSE, unm |-> FALSE]
    [] sem = "pass:lit" -> [v |-> labs["lit"], err |-> FALSE, unm |-> FALSE]
    [] sem \in {"bin:or", "bin:and"} ->
         [v |-> Expr([t |-> IF sem = "bin:or" THEN "or" ELSE "and", l |-> labs["left"].e, r |-> labs["right"].e]), err |-> FALSE, unm |-> FALSE]
    [] sem = "not" ->
         LET x == labs["expr"].e IN
         [v |-> IF x.t = "not" THEN Expr(x.e) ELSE Expr([t |-> "not", e |-> x]), err |-> FALSE, unm |-> FALSE]
    [] sem = "coll" ->
         LET b == labs["binding"] IN
         [v |-> Expr([t |-> "coll", op |-> labs["op"].s, sel |-> labs["selector"].sel, mode |-> b.mode, n1 |-> b.n1, n2 |-> b.n2,
                      e |-> labs["expr"].e]), err |-> FALSE, unm |-> FALSE]
    [] sem = "bind:both" -> [v |-> [k |-> "bind", mode |-> "both", n1 |-> labs["id1"].s, n2 |-> labs["id2"].s], err |-> FALSE, unm |-> FALSE]
    [] sem = "bind:index" -> [v |-> [k |-> "bind", mode |-> "index", n1 |-> labs["id1"].s, n2 |-> ""], err |-> FALSE, unm |-> FALSE]
    [] sem = "bind:value" -> [v |-> [k |-> "bind", mode |-> "value", n1 |-> "", n2 |-> labs["id2"].s], err |-> FALSE, unm |-> FALSE]
    [] sem = "bind:default" -> [v |-> [k |-> "bind", mode |-> "default", n1 |-> labs["id"].s, n2 |-> ""], err |-> FALSE, unm |-> FALSE]
    [] sem \in {"const:any", "const:all", "const:==", "const:!=", "const:empty", "const:notempty", "const:in", "const:notin",
                "const:matches", "const:notmatches"} ->
         [v |-> Str(SubSeq(sem, 7, Len(sem))), err |-> FALSE, unm |-> FALSE]
    [] sem = "match3" ->
         [v |-> Expr([t |-> "match", sel |-> labs["selector"].sel, op |-> labs["operator"].s, val |-> labs["value"].raw, hv |-> TRUE]),
          err |-> FALSE, unm |-> FALSE]
    [] sem = "match2" ->
         [v |-> Expr([t |-> "match", sel |-> labs["selector"].sel, op |-> labs["operator"].s, val |-> "", hv |-> FALSE]), err |-> FALSE, unm |-> FALSE]
    [] sem = "sel:bexpr" ->
         [v |-> [k |-> "sel", sel |-> [ty |-> "bexpr", path |-> <<labs["first"].s>> \o StrsOf(labs["rest"])]], err |-> FALSE, unm |-> FALSE]
    [] sem = "sel:ptr" ->
         \* the segments are joined with "/", parsed as a JSON Pointer and unescaped; no segments = the pointer "/" = one empty part
         LET segs == StrsOf(labs["ptrsegs"]) IN
         [v |-> [k |-> "sel", sel |-> [ty |-> "ptr", path |-> IF segs = <<>> THEN <<"">> ELSE [i \in 1..Len(segs) |-> UnescapePart(segs[i])]]],
          err |-> FALSE, unm |-> FALSE]
    [] sem = "text" -> [v |-> Str(Text(txt)), err |-> FALSE, unm |-> FALSE]
    [] sem = "text1" -> [v |-> Str(Text(Tail(txt))), err |-> FALSE, unm |-> FALSE]
    [] sem = "value:sel" ->
         \* a bare word denotes its dotted spelling; a quoted string that reads as a JSON Pointer keeps the text between the quotes
         LET s == labs["selector"].sel IN
         [v |-> [k |-> "mv", raw |-> IF s.ty = "bexpr" THEN JoinWith(s.path, 1, ".") ELSE Text(SubSeq(txt, 2, Len(txt) - 1))],
          err |-> FALSE, unm |-> FALSE]
    [] sem = "value:n" -> [v |-> [k |-> "mv", raw |-> labs["n"].s], err |-> FALSE, unm |-> FALSE]
    [] sem = "value:s" -> [v |-> [k |-> "mv", raw |-> labs["s"].s], err |-> FALSE, unm |-> FALSE]
    [] sem = "unquote" ->
         LET u == Unquote(txt) IN
         IF u.r = "ok" THEN [v |-> Str(u.s), err |-> FALSE, unm |-> FALSE]
         ELSE [v |-> Str(""), err |-> TRUE, unm |-> u.r = "unm"]

---------------------------------------------------------------------------
(* the engine *)
R(ok, st, v, labs) == [ok |-> ok, st |-> st, v |-> v, labs |-> labs]
\* every parseExpr call adds one step and folds (kind of expression, position) into a running hash of the step sequence: the
\* step trace of a parse, compared with the trace the real parser reports through its step hook (kind and offset of every step)
Code(t) == CASE t = "choice" -> 1 [] t = "seq" -> 2 [] t = "act" -> 3 [] t = "lab" -> 4 [] t = "ref" -> 5 [] t = "lit" -> 6 [] t = "cls" -> 7
             [] t = "any" -> 8 [] t = "andcode" -> 9 [] t = "not" -> 10 [] t = "and" -> 11 [] t = "opt" -> 12 [] t = "star" -> 13 [] t = "plus" -> 14
Bump(st, e) == IF Traced THEN [st EXCEPT !.cnt = @ + 1, !.h = (@ * 31 + e.c * 131 + st.pos) % 16777213] ELSE [st EXCEPT !.cnt = @ + 1]    \* e.c = Code(e.t), precomputed in the grammar table
Adv(inp, st) ==       \* read(): moving onto a byte that is not valid UTF-8 records an error
  LET np == st.pos + 1 IN
  [st EXCEPT !.pos = np, !.errs = IF np <= Len(inp) /\ inp[np] = "<B>" THEN @ + 1 ELSE @]
InSyms(c, syms) == \E i \in 1..Len(syms) : syms[i] = c
SeqV(vals) == [k |-> "seq", es |-> vals]

RECURSIVE PE(_, _, _, _, _), PEraw(_, _, _, _, _), PLit(_, _, _, _, _), PSeq(_, _, _, _, _, _, _, _), PChoice(_, _, _, _, _), PStar(_, _, _, _, _)

PLit(val, i, inp, st, start) ==
  IF i > Len(val) THEN R(TRUE, st, Nil, EmptyF)
  ELSE IF st.pos <= Len(inp) /\ inp[st.pos] = val[i] THEN PLit(val, i + 1, inp, Adv(inp, st), start)
  ELSE R(FALSE, [st EXCEPT !.pos = start], Nil, EmptyF)

PSeq(es, i, inp, st, start, vals, labs, fr) ==
  IF i > Len(es) THEN R(TRUE, st, SeqV(vals), labs)
  ELSE LET r == PE(es[i], inp, st, labs @@ fr, 0) IN
    IF r.st.ab THEN r
    ELSE IF r.ok THEN PSeq(es, i + 1, inp, r.st, start, Append(vals, r.v), r.labs @@ labs, fr)
    ELSE R(FALSE, [r.st EXCEPT !.pos = start], Nil, EmptyF)        \* cnt and errs are not rolled back

PChoice(es, i, inp, st, fr) ==
  IF i > Len(es) THEN R(FALSE, st, Nil, EmptyF)
  ELSE LET r == PE(es[i], inp, st, EmptyF, 0) IN
    IF r.st.ab THEN r
    ELSE IF r.ok THEN R(TRUE, r.st, r.v, EmptyF)
    ELSE PChoice(es, i + 1, inp, r.st, fr)

PStar(e, inp, st, vals, fr) ==
  LET r == PE(e, inp, st, EmptyF, 0) IN
  IF r.st.ab THEN r
  ELSE IF r.ok THEN PStar(e, inp, r.st, Append(vals, r.v), fr)
  ELSE R(TRUE, r.st, IF vals = <<>> THEN Nil ELSE SeqV(vals), EmptyF)      \* a repetition that matched nothing yields nil

\* Engine invariants, asserted on every parseExpr call TLC evaluates: the step counter and the error list only grow, the
\* budget is overrun by at most one step, a failing expression leaves the position where it started (predicates always do),
\* a matcher that succeeds advances, nothing moves backwards past the start of the input.
Contract(e, st0, r) ==
  /\ r.st.cnt > st0.cnt /\ r.st.errs >= st0.errs
  /\ (st0.max > 0 => r.st.cnt <= st0.max + 1)
  /\ (r.st.ab => ~r.ok)
  /\ (~r.st.ab /\ ~r.ok => r.st.pos = st0.pos)
  /\ (~r.st.ab /\ e.t \in {"and", "not", "andcode"} => r.st.pos = st0.pos)
  /\ (~r.st.ab /\ r.ok => r.st.pos >= st0.pos)
  /\ (~r.st.ab /\ r.ok /\ e.t \in {"lit", "cls", "any"} /\ (e.t # "lit" \/ Len(e.chars) > 0) => r.st.pos > st0.pos)

\* fr = the labels already set in the current frame; the unused last argument keeps the arities distinct
PE(e, inp, st0, fr, z) ==
  LET r == PEraw(e, inp, st0, fr, z) IN
  IF ~Checked \/ Contract(e, st0, r) THEN r ELSE Assert(FALSE, <<"engine invariant broken at", e.t, st0, r.st>>)

PEraw(e, inp, st0, fr, z) ==
  LET st == Bump(st0, e) IN
  IF st.max > 0 /\ st.cnt > st.max THEN R(FALSE, [st EXCEPT !.ab = TRUE], Nil, EmptyF)
  ELSE
  CASE e.t = "choice"  -> PChoice(e.es, 1, inp, st, fr)
    [] e.t = "seq"     -> PSeq(e.es, 1, inp, st, st.pos, <<>>, EmptyF, fr)
    [] e.t = "act"     -> LET r == PE(e.es[1], inp, st, fr, 0) IN
                          IF r.st.ab \/ ~r.ok THEN r
                          ELSE LET a == Act(e.sem, r.labs @@ fr, SubSeq(inp, st.pos, r.st.pos - 1)) IN
                               R(TRUE, [r.st EXCEPT !.errs = IF a.err THEN @ + 1 ELSE @, !.unm = @ \/ a.unm], a.v, r.labs)
    [] e.t = "lab"     -> LET r == PE(e.es[1], inp, st, EmptyF, 0) IN
                          IF r.st.ab THEN r
                          ELSE IF r.ok THEN R(TRUE, r.st, r.v, (e.label :> r.v)) ELSE R(FALSE, r.st, Nil, EmptyF)
    [] e.t = "ref"     -> LET r == PE(RuleOf(e.name), inp, st, EmptyF, 0) IN
                          IF r.st.ab THEN r ELSE R(r.ok, r.st, r.v, EmptyF)
    [] e.t = "lit"     -> PLit(e.chars, 1, inp, st, st.pos)
    [] e.t = "cls"     -> IF st.pos <= Len(inp) /\ InSyms(inp[st.pos], e.syms)
                          THEN R(TRUE, Adv(inp, st), Str(inp[st.pos]), EmptyF) ELSE R(FALSE, st, Nil, EmptyF)
    [] e.t = "any"     -> IF st.pos <= Len(inp) THEN R(TRUE, Adv(inp, st), Str(inp[st.pos]), EmptyF) ELSE R(FALSE, st, Nil, EmptyF)
    [] e.t = "andcode" -> R(FALSE, [st EXCEPT !.errs = @ + 1], Nil, EmptyF)     \* every &{...} of this grammar reports an error and fails
    [] e.t = "not"     -> LET r == PE(e.es[1], inp, st, EmptyF, 0) IN
                          IF r.st.ab THEN r ELSE R(~r.ok, [r.st EXCEPT !.pos = st.pos], Nil, EmptyF)
    [] e.t = "and"     -> LET r == PE(e.es[1], inp, st, EmptyF, 0) IN
                          IF r.st.ab THEN r ELSE R(r.ok, [r.st EXCEPT !.pos = st.pos], Nil, EmptyF)
    [] e.t = "opt"     -> LET r == PE(e.es[1], inp, st, EmptyF, 0) IN
                          IF r.st.ab THEN r ELSE R(TRUE, r.st, IF r.ok THEN r.v ELSE Nil, EmptyF)
    [] e.t = "star"    -> PStar(e.es[1], inp, st, <<>>, fr)
    [] e.t = "plus"    -> LET r == PStar(e.es[1], inp, st, <<>>, fr) IN
                          IF r.st.ab THEN r ELSE R(r.v.k # "nil", r.st, r.v, EmptyF)

\* grammar.Parse(inp) with MaxExpressions(max) (0 = unlimited)
Run(inp, max) ==
  LET st0 == [pos |-> 1, cnt |-> 0, h |-> 0, max |-> max, ab |-> FALSE, unm |-> FALSE,
              errs |-> IF Len(inp) >= 1 /\ inp[1] = "<B>" THEN 1 ELSE 0]
      r == PE(RuleOf(G.rules[1].name), inp, st0, EmptyF, 0)
  IN [ok |-> r.ok /\ ~r.st.ab, v |-> r.v, cnt |-> r.st.cnt, h |-> r.st.h, errs |-> r.st.errs, ab |-> r.st.ab, unm |-> r.st.unm]

\* what a caller of grammar.Parse / CreateEvaluator observes
Accepted(res) == res.ok /\ res.errs = 0
Observed(res) ==
  IF res.unm THEN [acc |-> "?"]
  ELSE IF Accepted(res) THEN [acc |-> "yes", ast |-> res.v.e]
  ELSE IF res.ab THEN [acc |-> "budget"]
  ELSE IF res.ok THEN [acc |-> "tree+error"]
  ELSE [acc |-> "no"]
=============================================================================
