----------------------------- MODULE GrammarEq -----------------------------
(***************************************************************************)
(* Structural equality of two grammar tables: the one read from            *)
(* grammar.peg and the one compiled into grammar.go (C20).                 *)
(*                                                                         *)
(* Both are given in the same canonical form (tools/c20.py reshapes, it    *)
(* does not compare): a sequence of rules [name, display, pos, expr] whose *)
(* expression nodes are records                                            *)
(*   [t, es, label, name, val, want, ic, inv, chars, ranges, classes,      *)
(*    fn, params, body, pos]                                               *)
(* with es the sequence of children.  Diff is the set of all places where  *)
(* the two tables differ; the property is Diff = {}.  Source positions are *)
(* compared separately (PosDiff): a stale position does not change what    *)
(* the parser does.                                                        *)
(***************************************************************************)
EXTENDS Integers, Sequences, TLC, Json, FiniteSets

CONSTANT TableFile
T == JsonDeserialize(TableFile)
Peg == T.peg
Go == T.go

Fields == {"t", "label", "name", "val", "want", "ic", "inv", "chars", "ranges", "classes", "fn", "params", "body"}

RECURSIVE NodeDiff(_, _, _)
NodeDiff(a, b, path) ==
  LET here == {[at |-> path, field |-> f, peg |-> a[f], go |-> b[f]] : f \in {f \in Fields : a[f] # b[f]}}
  IN IF a.t # b.t THEN here
     ELSE IF Len(a.es) # Len(b.es) THEN here \cup {[at |-> path, field |-> "children", peg |-> Len(a.es), go |-> Len(b.es)]}
     ELSE here \cup UNION {NodeDiff(a.es[i], b.es[i], path \o "/" \o a.t \o ToString(i)) : i \in 1..Len(a.es)}

RuleDiff(i) ==
  LET a == Peg.rules[i]  b == Go.rules[i] IN
  (IF a.name # b.name THEN {[at |-> ToString(i), field |-> "rule name", peg |-> a.name, go |-> b.name]} ELSE {})
  \cup (IF a.display # b.display THEN {[at |-> a.name, field |-> "display name", peg |-> a.display, go |-> b.display]} ELSE {})
  \cup NodeDiff(a.expr, b.expr, a.name)

Diff ==
  IF Len(Peg.rules) # Len(Go.rules)
  THEN {[at |-> "grammar", field |-> "number of rules", peg |-> Len(Peg.rules), go |-> Len(Go.rules)]}
  ELSE UNION {RuleDiff(i) : i \in 1..Len(Peg.rules)}

\* functions present in grammar.go that no table node uses, or wired twice
Orphans == T.go.orphans

RECURSIVE NodePos(_, _, _)
NodePos(a, b, path) ==
  (IF a.pos # b.pos THEN {[at |-> path, peg |-> a.pos, go |-> b.pos]} ELSE {})
  \cup (IF a.t = b.t /\ Len(a.es) = Len(b.es) THEN UNION {NodePos(a.es[i], b.es[i], path \o "/" \o a.t \o ToString(i)) : i \in 1..Len(a.es)} ELSE {})
PosDiff == IF Len(Peg.rules) # Len(Go.rules) THEN {} ELSE
  UNION {NodePos(Peg.rules[i].expr, Go.rules[i].expr, Peg.rules[i].name) \cup
         (IF Peg.rules[i].pos # Go.rules[i].pos THEN {[at |-> Peg.rules[i].name, peg |-> Peg.rules[i].pos, go |-> Go.rules[i].pos]} ELSE {}) : i \in 1..Len(Peg.rules)}

RECURSIVE Count(_)
Count(n) == 1 + (IF Len(n.es) = 0 THEN 0 ELSE LET RECURSIVE S(_) S(i) == IF i > Len(n.es) THEN 0 ELSE Count(n.es[i]) + S(i + 1) IN S(1))
Nodes == LET RECURSIVE S(_) S(i) == IF i > Len(Peg.rules) THEN 0 ELSE Count(Peg.rules[i].expr) + S(i + 1) IN S(1)

VARIABLE i
Init == i = 0
Next == i = 0 /\ i' = 1
        /\ PrintT("CASE " \o ToJson([diff |-> Diff, pos |-> PosDiff, orphans |-> Orphans, rules |-> Len(Peg.rules), nodes |-> Nodes]))
Spec == Init /\ [][Next]_i
Same == Diff = {} /\ Orphans = <<>>
=============================================================================
