------------------------------- MODULE Cases -------------------------------
(***************************************************************************)
(* Exhaustive enumerator of (expression, configuration, document) cases.   *)
(*                                                                         *)
(* Expression trees are built incrementally by actions (a postfix builder: *)
(* push an atom, apply not / and / or / any / all to the top of the stack) *)
(* from a single initial state, so that TLC spreads the work over all its  *)
(* workers.  For every complete tree the action Emit evaluates the         *)
(* reference semantics Den on every document and configuration of the      *)
(* world and prints one CASE line; the Go harness replays each line on the *)
(* real evaluator.                                                         *)
(*                                                                         *)
(* The world (documents as abstract values, atoms, quantifier shells,      *)
(* configurations, the float and regexp tables) is read from WorldFile.    *)
(***************************************************************************)
EXTENDS Integers, Sequences, TLC, Json

CONSTANT WorldFile
W == JsonDeserialize(WorldFile)

INSTANCE Den WITH FloatTab <- W.floattab, RegexTab <- W.regextab

VARIABLES stk,    \* stack of [full |-> tree, ref |-> tree with atoms by index, hc |-> contains a quantifier]
          n,      \* nodes used so far
          solo    \* TRUE once an atom outside the combination pool has been pushed
vars == <<stk, n, solo>>

MaxN == W.maxn
NAtoms == Len(W.atoms)
Combo == {W.combo[i] : i \in 1..Len(W.combo)}     \* atoms that may be combined
NColls == Len(W.colls)

Fits(k, used) == k - 1 <= MaxN - used      \* enough budget left to reduce k stack entries to one

Init == stk = <<>> /\ n = 0 /\ solo = FALSE

PushAtom(i) ==
  /\ ~solo /\ n < MaxN
  /\ (i \in Combo \/ stk = <<>>)
  /\ Fits(Len(stk) + 1, n + 1)
  /\ stk' = Append(stk, [full |-> W.atoms[i], ref |-> [t |-> "atom", i |-> i], hc |-> FALSE])
  /\ n' = n + 1
  /\ solo' = (i \notin Combo)

Top == stk[Len(stk)]
Below == SubSeq(stk, 1, Len(stk) - 1)

ApplyNot ==
  /\ ~solo /\ Len(stk) >= 1 /\ n < MaxN /\ Fits(Len(stk), n + 1)
  /\ Top.full.t # "not"                           \* the parser folds not not e into e
  /\ stk' = Append(Below, [full |-> [t |-> "not", e |-> Top.full], ref |-> [t |-> "not", e |-> Top.ref], hc |-> Top.hc])
  /\ n' = n + 1 /\ UNCHANGED solo

ApplyBin(op) ==
  /\ ~solo /\ Len(stk) >= 2 /\ n < MaxN /\ Fits(Len(stk) - 1, n + 1)
  /\ LET r == Top  l == stk[Len(stk) - 1] IN
     stk' = Append(SubSeq(stk, 1, Len(stk) - 2),
                   [full |-> [t |-> op, l |-> l.full, r |-> r.full], ref |-> [t |-> op, l |-> l.ref, r |-> r.ref],
                    hc |-> l.hc \/ r.hc])
  /\ n' = n + 1 /\ UNCHANGED solo

ApplyColl(j) ==
  /\ ~solo /\ Len(stk) >= 1 /\ n < MaxN /\ Fits(Len(stk), n + 1)
  /\ (W.nest \/ ~Top.hc)                          \* quantifiers inside quantifiers only in worlds that ask for them
  /\ LET c == W.colls[j] IN
     stk' = Append(Below,
                   [full |-> [t |-> "coll", op |-> c.op, sel |-> c.sel, mode |-> c.mode, n1 |-> c.n1, n2 |-> c.n2, e |-> Top.full],
                    ref  |-> [t |-> "coll", j |-> j, e |-> Top.ref], hc |-> TRUE])
  /\ n' = n + 1 /\ UNCHANGED solo

\* outcomes of the finished tree: one row per configuration, one column per document
Row(e, c) == [d \in 1..Len(W.docs) |-> Outcome(e, W.docs[d].av, W.cfgs[c])]
\* for a quantifier at the root: its elements as the specification sees them (used to unroll it, C06)
Parts(e, c) == [d \in 1..Len(W.docs) |-> ElemParts(e, W.docs[d].av, W.cfgs[c])]
Emit ==
  /\ Len(stk) = 1
  /\ PrintT("CASE " \o ToJson([e |-> Top.ref, x |-> [c \in 1..Len(W.cfgs) |-> Row(Top.full, c)],
                               p |-> IF Top.full.t = "coll" /\ W.parts THEN [c \in 1..Len(W.cfgs) |-> Parts(Top.full, c)] ELSE <<>>,
                               k |-> IF Top.full.t \in {"match", "coll"} /\ W.classes
                                     THEN [c \in 1..Len(W.cfgs) |-> [d \in 1..Len(W.docs) |-> SelClass(Top.full, W.docs[d].av, W.cfgs[c])]]
                                     ELSE <<>>]))
  /\ UNCHANGED vars

Next ==
  \/ \E i \in 1..NAtoms : PushAtom(i)
  \/ ApplyNot
  \/ ApplyBin("and") \/ ApplyBin("or")
  \/ \E j \in 1..NColls : ApplyColl(j)
  \/ Emit

Spec == Init /\ [][Next]_vars

\* the builder never exceeds its budget and can always still finish
BuilderOK == n <= MaxN /\ Fits(Len(stk), n)
\* the reference semantics is total on the world: every finished tree has an outcome in {T, F, E}
Total == Len(stk) = 1 => \A c \in 1..Len(W.cfgs) : \A d \in 1..Len(W.docs) : Row(Top.full, c)[d] \in {"T", "F", "E"}
=============================================================================
