----------------------------- MODULE ConcProof -----------------------------
(***************************************************************************)
(* TLAPS proof, for ANY number of goroutines, calls and cells, that the    *)
(* specified cache protocol of Conc.tla (MODE = "create": cells are filled *)
(* before the evaluator is shared, Evaluate only reads them) is free of    *)
(* conflicting accesses: RaceFree is an invariant of Spec.  TLC checks the *)
(* same property for small constants (and finds the race for "lazy").      *)
(* The module restates the "create" protocol without the scenario          *)
(* printing of Conc.tla; the actions are the same.                         *)
(***************************************************************************)
EXTENDS Integers, Sequences, TLAPS

CONSTANTS G, Calls, NCells
ASSUME ConstAssump == G \in Nat /\ Calls \in Nat /\ NCells \in Nat

Procs == 1..G
Cells == 1..NCells

VARIABLES cache, pc, cur, left, seen, results
vars == <<cache, pc, cur, left, seen, results>>

Init ==
  /\ cache = [c \in Cells |-> "compiled"]
  /\ pc = [g \in Procs |-> "idle"] /\ cur = [g \in Procs |-> 0] /\ left = [g \in Procs |-> Calls]
  /\ seen = [g \in Procs |-> "empty"] /\ results = [g \in Procs |-> <<>>]

StartCall(g) ==
  /\ pc[g] = "idle" /\ left[g] > 0
  /\ cur' = [cur EXCEPT ![g] = 1] /\ pc' = [pc EXCEPT ![g] = "read"] /\ left' = [left EXCEPT ![g] = @ - 1]
  /\ UNCHANGED <<cache, seen, results>>

NextCell(g) ==
  IF cur[g] < NCells
  THEN /\ cur' = [cur EXCEPT ![g] = @ + 1] /\ pc' = [pc EXCEPT ![g] = "read"] /\ UNCHANGED results
  ELSE /\ cur' = [cur EXCEPT ![g] = 0] /\ pc' = [pc EXCEPT ![g] = "idle"]
       /\ results' = [results EXCEPT ![g] = Append(@, "sequential-result")]

Read(g) ==
  /\ pc[g] = "read"
  /\ seen' = [seen EXCEPT ![g] = cache[cur[g]]]
  /\ IF cache[cur[g]] = "compiled" THEN NextCell(g) /\ UNCHANGED <<cache, left>>
     ELSE pc' = [pc EXCEPT ![g] = "compile"] /\ UNCHANGED <<cache, cur, left, results>>

Compile(g) ==
  /\ pc[g] = "compile"
  /\ pc' = [pc EXCEPT ![g] = "read"]
  /\ UNCHANGED <<cache, cur, left, seen, results>>

Next == \E g \in Procs : StartCall(g) \/ Read(g) \/ Compile(g)
Spec == Init /\ [][Next]_vars

Access(g) == IF pc[g] = "read" THEN [c |-> cur[g], w |-> FALSE] ELSE IF pc[g] = "write" THEN [c |-> cur[g], w |-> TRUE] ELSE [c |-> 0, w |-> FALSE]
RaceFree == \A g1, g2 \in Procs : (g1 # g2 /\ Access(g1).c # 0 /\ Access(g1).c = Access(g2).c) => ~(Access(g1).w \/ Access(g2).w)

\* nobody is ever about to write: the inductive invariant
NoWriter == pc \in [Procs -> {"idle", "read", "compile"}]

LEMMA InitNoWriter == Init => NoWriter
  BY DEF Init, NoWriter

LEMMA NextNoWriter == NoWriter /\ [Next]_vars => NoWriter'
<1> SUFFICES ASSUME NoWriter, [Next]_vars PROVE NoWriter'
  OBVIOUS
<1>1. CASE UNCHANGED vars
  BY <1>1 DEF NoWriter, vars
<1>2. ASSUME NEW g \in Procs, StartCall(g) PROVE NoWriter'
  BY <1>2 DEF StartCall, NoWriter
<1>3. ASSUME NEW g \in Procs, Read(g) PROVE NoWriter'
  BY <1>3 DEF Read, NextCell, NoWriter
<1>4. ASSUME NEW g \in Procs, Compile(g) PROVE NoWriter'
  BY <1>4 DEF Compile, NoWriter
<1> QED
  BY <1>1, <1>2, <1>3, <1>4 DEF Next

LEMMA NoWriterRaceFree == NoWriter => RaceFree
  BY DEF NoWriter, RaceFree, Access

THEOREM Safe == Spec => []RaceFree
<1>1. Spec => []NoWriter
  BY InitNoWriter, NextNoWriter, PTL DEF Spec
<1> QED
  BY <1>1, NoWriterRaceFree, PTL
=============================================================================
