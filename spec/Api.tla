-------------------------------- MODULE Api --------------------------------
(***************************************************************************)
(* The library as an object system (bexpr.go, options.go, filter.go).      *)
(*                                                                         *)
(* State: the evaluators / filters created so far (an immutable record of  *)
(* source expression and the configuration folded from the option list)    *)
(* and the log of calls made on them.  Documents are constants of the      *)
(* model: no action can write them (C13: evaluation is pure).  The outcome *)
(* of a call is Den of (expression, configuration, document) - it does not *)
(* read the log (C13: history independence; C14: determinism).             *)
(*                                                                         *)
(* Three enumerations, selected by W.mode:                                 *)
(*   "hist"    every history of up to W.maxlen Evaluate / Execute calls on *)
(*             the world's evaluators (C13)                                *)
(*   "opts"    every option sequence of up to W.maxlen options (C18)       *)
(*   "filter"  every (filter expression, container) pair (C17)             *)
(***************************************************************************)
EXTENDS Integers, Sequences, TLC, Json

CONSTANT WorldFile
W == JsonDeserialize(WorldFile)
INSTANCE Den WITH FloatTab <- W.floattab, RegexTab <- W.regextab

---------------------------------------------------------------------------
(* options.go: an option list is folded left to right over the defaults *)
DefaultOpts == [tag |-> "bexpr", hook |-> "none", unknown |-> None, max |-> 0]
Apply(o, opt) ==
  CASE opt.o = "tag"     -> [o EXCEPT !.tag = opt.v]
    [] opt.o = "hook"    -> [o EXCEPT !.hook = opt.v]
    [] opt.o = "unknown" -> [o EXCEPT !.unknown = opt.v]
    [] opt.o = "max"     -> [o EXCEPT !.max = opt.v]
    [] opt.o = "nil"     -> o                         \* a nil Option is skipped
RECURSIVE FoldOpts(_, _, _)
FoldOpts(o, seq, i) == IF i > Len(seq) THEN o ELSE FoldOpts(Apply(o, seq[i]), seq, i + 1)
GetOpts(seq) == FoldOpts(DefaultOpts, seq, 1)

\* CreateEvaluator: the budget goes to the parser only when it is non-zero; W.steps[e] is the number of parser
\* steps the source of expression e needs (measured by the harness; its exactness is C11's subject)
Creates(e, o) == o.max = 0 \/ o.max >= W.steps[e]
CfgOf(o) == [tag |-> o.tag, hook |-> o.hook, unknown |-> o.unknown]

\* what an option record means for a probe: neutral settings are no-ops (an identity hook, an unknown value when the
\* probe's selector resolves, a budget of 0 or at least the parse's step count)
Resolves(p, o) ==
  LET e == W.exprs[p.e] IN
  e.t = "match" /\ SelClass(e, W.docs[p.d].av, CfgOf(o)) = "ok"
MeaningKey(o, p) ==
  [tag |-> o.tag, hook |-> IF o.hook = "id" THEN "none" ELSE o.hook,
   unknown |-> IF Resolves(p, o) THEN None ELSE o.unknown, creates |-> Creates(p.e, o)]

---------------------------------------------------------------------------
(* filter.go *)
ElemOut(f, c, i) == Outcome(W.exprs[f], IF c.k = "map" THEN c.v[i].val ELSE c.v[i], DefaultCfg)
Execute(f, c) ==
  IF c.k \notin {"list", "map"} THEN [r |-> "E"]
  ELSE IF \E i \in 1..Len(c.v) : ElemOut(f, c, i) \notin {"T", "F"} THEN
         (IF \E i \in 1..Len(c.v) : ElemOut(f, c, i) = "?" THEN [r |-> "?"] ELSE [r |-> "E"])
  ELSE [r |-> "ok",
        kept |-> SelectSeq([i \in 1..Len(c.v) |-> i], LAMBDA i : ElemOut(f, c, i) = "T"),
        ty |-> IF c.k = "list" /\ c.arr THEN "[]" \o c.et.t ELSE c.t]

---------------------------------------------------------------------------
VARIABLES hist,   \* "hist": sequence of [ev, d]; "opts": sequence of options; "filter": <<f, c>> or <<>>
          done
vars == <<hist, done>>

Init == hist = <<>> /\ done = FALSE

NEv == Len(W.evs)        \* evaluators of the history world: [e |-> expression index, c |-> configuration index]
Call(ev, d) ==
  /\ W.mode = "hist" /\ ~done /\ Len(hist) < W.maxlen
  /\ hist' = Append(hist, [ev |-> ev, d |-> d]) /\ UNCHANGED done
OutOf(call) ==
  LET ev == W.evs[call.ev] IN
  IF ev.f THEN Execute(ev.e, W.docs[call.d].av)
  ELSE Outcome(W.exprs[ev.e], W.docs[call.d].av, W.cfgs[ev.c])

AddOpt(k) ==
  /\ W.mode = "opts" /\ ~done /\ Len(hist) < W.maxlen
  /\ hist' = Append(hist, W.options[k]) /\ UNCHANGED done

PickFilter(f, c) ==
  /\ W.mode = "filter" /\ hist = <<>>
  /\ hist' = <<f, c>> /\ UNCHANGED done

Emit ==
  /\ ~done
  /\ CASE W.mode = "hist" ->
            Len(hist) >= 1 /\ PrintT("CASE " \o ToJson([h |-> hist, x |-> [i \in 1..Len(hist) |-> OutOf(hist[i])]]))
       [] W.mode = "opts" ->
            LET o == GetOpts(hist) IN
            PrintT("CASE " \o ToJson([opts |-> hist, keys |-> [p \in 1..Len(W.probes) |-> ToString(MeaningKey(o, W.probes[p]))],
                       x |-> [p \in 1..Len(W.probes) |->
                                IF Creates(W.probes[p].e, o)
                                THEN Outcome(W.exprs[W.probes[p].e], W.docs[W.probes[p].d].av, CfgOf(o))
                                ELSE "CREATE-ERR"]]))
       [] W.mode = "filter" ->
            Len(hist) = 2 /\ PrintT("CASE " \o ToJson([f |-> hist[1], c |-> hist[2], x |-> Execute(hist[1], W.conts[hist[2]].av)]))
  /\ UNCHANGED vars

Next ==
  \/ \E ev \in 1..NEv : \E k \in 1..Len(W.docsel) : Call(ev, W.docsel[k])
  \/ \E k \in 1..Len(W.options) : AddOpt(k)
  \/ \E f \in 1..Len(W.exprs) : \E c \in 1..Len(W.conts) : PickFilter(f, c)
  \/ Emit
Spec == Init /\ [][Next]_vars

---------------------------------------------------------------------------
(* properties of the model *)

\* C13 / C14: a call's outcome is the same wherever it occurs in whatever history
HistoryIndependent ==
  W.mode = "hist" => \A i \in 1..Len(hist) : \A j \in 1..Len(hist) :
     (hist[i].ev = hist[j].ev /\ hist[i].d = hist[j].d) => OutOf(hist[i]) = OutOf(hist[j])

\* C18: distinct options commute, the last of repeated options wins, a nil option is skipped
Swap(seq, i) == [k \in 1..Len(seq) |-> IF k = i THEN seq[i + 1] ELSE IF k = i + 1 THEN seq[i] ELSE seq[k]]
OptionLaws ==
  W.mode = "opts" =>
    /\ \A i \in 1..(Len(hist) - 1) : hist[i].o # hist[i + 1].o => GetOpts(Swap(hist, i)) = GetOpts(hist)
    /\ \A i \in 1..Len(hist) :
         (hist[i].o # "nil" /\ \A j \in (i + 1)..Len(hist) : hist[j].o # hist[i].o) =>
            Apply(GetOpts(hist), hist[i]) = GetOpts(hist)                      \* the last occurrence is what is stored
    /\ \A i \in 1..Len(hist) : hist[i].o = "nil" =>
         GetOpts(SubSeq(hist, 1, i - 1) \o SubSeq(hist, i + 1, Len(hist))) = GetOpts(hist)

\* C17: Execute keeps exactly the elements on which the expression is true, in order; idempotent
FilterLaws ==
  (W.mode = "filter" /\ Len(hist) = 2) =>
    LET c == W.conts[hist[2]].av  r == Execute(hist[1], c) IN
    r.r = "ok" =>
      /\ \A i \in 1..Len(r.kept) : ElemOut(hist[1], c, r.kept[i]) = "T"
      /\ \A i \in 1..(Len(r.kept) - 1) : r.kept[i] < r.kept[i + 1]
      /\ \A i \in 1..Len(c.v) : ElemOut(hist[1], c, i) = "T" => \E k \in 1..Len(r.kept) : r.kept[k] = i
=============================================================================
