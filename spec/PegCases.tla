----------------------------- MODULE PegCases -----------------------------
(***************************************************************************)
(* Enumerator of parser inputs: every sequence of up to W.maxtok tokens    *)
(* of the world's token alphabet, with and without a separating blank,     *)
(* built by actions from the empty input (so that TLC spreads the work).   *)
(* For every input the PEG engine of Peg.tla runs the frozen grammar and   *)
(* Emit prints what grammar.Parse / CreateEvaluator must return: accepted  *)
(* with which syntax tree, rejected, tree-and-error, and the number of     *)
(* parser steps.  In budget mode it also runs the engine under budgets     *)
(* around that number (C11).  Prefabricated inputs may come with the tree  *)
(* they were rendered from: rt says whether the specification reads the    *)
(* rendering back as that tree (C16, print-then-parse round trip).         *)
(***************************************************************************)
EXTENDS Integers, Sequences, TLC, Json

CONSTANT WorldFile
W == JsonDeserialize(WorldFile)
INSTANCE Peg WITH G <- W.grammar, Checked <- W.checked, Traced <- W.traced

VARIABLES inp, k, seed      \* seed: index of a prefabricated input (0 = built from tokens)
vars == <<inp, k, seed>>

Count(s, c) == LET RECURSIVE N(_) N(i) == IF i > Len(s) THEN 0 ELSE (IF s[i] = c THEN 1 ELSE 0) + N(i + 1) IN N(1)

Init == inp = <<>> /\ k = 0 /\ seed = 0

AddTok(t, sep) ==
  /\ seed = 0 /\ k < W.maxtok
  /\ (sep => k > 0)
  /\ (k >= 2 => \E j \in 1..Len(W.later) : W.later[j] = t)      \* from the third token on only the tokens listed in W.later
  /\ LET n == (IF sep THEN inp \o <<" ">> ELSE inp) \o W.tokens[t] IN
     /\ Count(n, "(") <= W.maxparen
     /\ inp' = n
  /\ k' = k + 1 /\ UNCHANGED seed

\* prefabricated inputs (renderings of trees, mutated derivations, pathological nesting)
PickSeed(i) == seed = 0 /\ k = 0 /\ inp = <<>> /\ seed' = i /\ inp' = W.seeds[i] /\ k' = W.maxtok

Budgets(n) == IF n <= 2 THEN {1, 2, 3} ELSE {1, 2, n \div 2, n - 1, n, n + 1, 2 * n}

\* C10 on the model: the engine terminates with one of the result shapes (evaluating Run is the termination argument for
\* this input), and an accepted input has a syntax tree
ShapeOK(r) == Observed(r).acc \in {"yes", "no", "tree+error", "?"} /\ (Accepted(r) => r.v.k = "expr")

\* C11 on the model: the budget is exact and monotone - with N the unlimited step count, a budget n >= N gives the
\* unlimited result, a budget 0 < n < N gives the budget error, and no run takes more than n + 1 steps
BudgetOK(r, b, rb) ==
  /\ rb.cnt <= b + 1
  /\ (b >= r.cnt => ~rb.ab /\ Observed(rb) = Observed(r) /\ rb.cnt = r.cnt /\ rb.h = r.h)
  /\ (b < r.cnt => rb.ab /\ rb.cnt = b + 1)

Emit ==
  /\ LET r == Run(inp, 0)
         bud == IF W.budgets THEN [b \in Budgets(r.cnt) |-> Run(inp, b)] ELSE <<>>
     IN /\ Assert(ShapeOK(r), <<"result shape (C10)", inp>>)
        /\ W.budgets => \A b \in Budgets(r.cnt) : Assert(BudgetOK(r, b, bud[b]), <<"budget law (C11)", inp, b>>)
        /\ PrintT("CASE " \o ToJson([inp |-> inp, obs |-> Observed(r), cnt |-> r.cnt, h |-> r.h, tr |-> W.traced, errs |-> r.errs, seed |-> seed,
                                     rt |-> IF seed > 0 /\ Len(W.expect) >= seed
                                            THEN Observed(r).acc = "yes" /\ Observed(r).ast = W.expect[seed] ELSE TRUE,
                                     bud |-> IF W.budgets THEN [b \in Budgets(r.cnt) |-> Observed(bud[b])] ELSE <<>>]))
  /\ UNCHANGED vars

Next ==
  \/ \E t \in 1..Len(W.tokens) : \E sep \in BOOLEAN : AddTok(t, sep)
  \/ \E i \in 1..Len(W.seeds) : PickSeed(i)
  \/ Emit
Spec == Init /\ [][Next]_vars

=============================================================================
