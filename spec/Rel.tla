------------------------------- MODULE Rel -------------------------------
(***************************************************************************)
(* Validation of observation groups recorded from the real evaluator.      *)
(*                                                                         *)
(* Several properties are relations between outcomes of several runs of    *)
(* the real code (A, B and `A and B`; `==` and `!=`; a quantifier and its  *)
(* unrolling; two spellings of a selector; two documents that differ only  *)
(* in hidden fields; repetitions of one call).  The harness records each   *)
(* such family of runs as one group; this module steps through the         *)
(* recorded groups like a trace and checks on every one the law the        *)
(* specification states for it.  The laws are the ones TLC checks on the   *)
(* reference semantics in Laws.tla; here they are applied to what the      *)
(* implementation did.                                                     *)
(***************************************************************************)
EXTENDS Integers, Sequences, TLC, Json

CONSTANT GroupFile
Groups == ndJsonDeserialize(GroupFile)

LOCAL INSTANCE Den WITH FloatTab <- [x \in {"0"} |-> [f64 |-> "0000000000000000", f32 |-> "00000000"]],
                        RegexTab <- [x \in {} |-> [bad |-> TRUE]]

TFE == {"T", "F", "E"}

\* left fold with early exit: the first decisive element or the first error ends it
RECURSIVE FoldObs(_, _, _)
FoldObs(op, el, i) ==
  IF i > Len(el) THEN (IF op = "all" THEN "T" ELSE "F")
  ELSE IF el[i] = "E" THEN "E"
  ELSE IF (op = "any" /\ el[i] = "T") \/ (op = "all" /\ el[i] = "F") THEN el[i]
  ELSE FoldObs(op, el, i + 1)

AllSame(s) == \A i \in 1..Len(s) : s[i] = s[1]
InTFE(s) == \A i \in 1..Len(s) : s[i] \in TFE

\* a group in which some run panicked or returned (true, err) is C09's business, not a relation's
Usable(g) ==
  CASE g.rel \in {"and", "or"} -> g.a \in TFE /\ g.b \in TFE /\ g.r \in TFE
    [] g.rel \in {"not", "neg"} -> g.a \in TFE /\ g.r \in TFE
    [] g.rel \in {"any", "all"} -> InTFE(g.el) /\ g.r \in TFE
    [] g.rel = "same" -> InTFE(g.obs)
    [] g.rel = "absent" -> g.r \in TFE
    [] g.rel = "flag" -> TRUE

GroupOK(g) ==
  CASE g.rel = "and" -> g.r = AndTab(g.a, g.b)
    [] g.rel = "or"  -> g.r = OrTab(g.a, g.b)
    [] g.rel = "not" -> g.r = Neg3(g.a)              \* `not A` against A
    [] g.rel = "neg" -> g.r = Neg3(g.a)              \* negated operator against the positive one
    [] g.rel \in {"any", "all"} -> g.r = FoldObs(g.rel, g.el, 1)
    [] g.rel = "same" -> AllSame(g.obs)
    [] g.rel = "absent" -> g.r = AbsentTab(g.op)
    [] g.rel = "flag" -> g.ok                         \* a yes/no observation made by the harness (e.g. trees equal)

VARIABLE i
Init == i = 1
Step ==
  /\ i <= Len(Groups)
  /\ LET g == Groups[i] IN
     (~Usable(g) /\ PrintT("SKIP " \o ToString(i))) \/ (Usable(g) /\ GroupOK(g)) \/ (Usable(g) /\ ~GroupOK(g) /\ PrintT("BAD " \o ToString(i)))
  /\ i' = i + 1
Spec == Init /\ [][Step]_i

\* the whole recording was consumed
Consumed == TLCGet("stats").diameter - 1 = Len(Groups)
=============================================================================
