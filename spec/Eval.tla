-------------------------------- MODULE Eval --------------------------------
(***************************************************************************)
(* The evaluator as a small-step machine in the shape of the code          *)
(* (evaluate.go: evaluate / evaluateMatchExpression /                      *)
(* evaluateCollectionExpression), next to the denotational Den of Den.tla. *)
(*                                                                         *)
(* State: ctl, a control stack of frames [node, ph, i, coll]; env, the     *)
(* local-variable stack of any/all bindings (innermost last); ret, the     *)
(* result register ("-" while none); one action per step of the code:      *)
(*   Enter        push the frame of a child expression                     *)
(*   MatchStep    resolve the selector and apply the operator (one call of *)
(*                evaluateMatchExpression; its inner case analysis is      *)
(*                Den.tla's MatchOp / Resolve)                             *)
(*   NotDone      negate the operand's result, pass an error through       *)
(*   LeftDone     and / or: short-circuit or enter the right operand       *)
(*   RightDone    the right operand's result is the result                 *)
(*   CollResolve  resolve the collection, reject non-collections, empty    *)
(*                and absent collections, duplicate binding names          *)
(*   IterBind     push the bindings of element i and enter the body        *)
(*   IterDone     pop the bindings; stop at the first decisive element or  *)
(*                error, else go on with element i + 1                     *)
(* TLC checks, for every (expression, configuration, document) of the      *)
(* world:                                                                  *)
(*   Refines       when the machine halts, ret = Den                       *)
(*   EnvBalanced   env holds exactly the bindings of the quantifier frames *)
(*                 on the control stack (pushed on IterBind, popped on     *)
(*                 IterDone - scoping, C06)                                *)
(*   ShortCircuit  the right operand of and (or) is entered only after the *)
(*                 left one returned true (false) (C03)                    *)
(*   InOrder       a quantifier visits elements in index order, each at    *)
(*                 most once, and stops at the first decisive one (C06)    *)
(* and termination (the machine halts on every input: no deadlock before   *)
(* done, and the state graph is finite and acyclic by construction).       *)
(***************************************************************************)
EXTENDS Integers, Sequences, TLC, Json

CONSTANT WorldFile
W == JsonDeserialize(WorldFile)
INSTANCE Den WITH FloatTab <- W.floattab, RegexTab <- W.regextab

VARIABLES job,    \* [e, c, d]: which expression / configuration / document is being evaluated (0s before the choice)
          ctl, env, ret, log,     \* log: the history of (node kind, event) pairs, for the order properties
          hlog                    \* the resolve events so far: what a value transformation hook has been handed, in call order
vars == <<job, ctl, env, ret, log, hlog>>

Cfg == W.cfgs[job.c]
Doc == W.docs[job.d].av
Frame(node) == [node |-> node, ph |-> "enter", i |-> 0, coll |-> None, nb |-> 0]
TopF == ctl[Len(ctl)]
Pop == SubSeq(ctl, 1, Len(ctl) - 1)
SetTop(f) == Append(Pop, f)

Init == job = [e |-> 0, c |-> 0, d |-> 0] /\ ctl = <<>> /\ env = <<>> /\ ret = "-" /\ log = <<>> /\ hlog = <<>>

Choose(e, c, d) ==
  /\ job.e = 0
  /\ job' = [e |-> e, c |-> c, d |-> d]
  /\ ctl' = <<Frame(W.exprs[e])>> /\ UNCHANGED <<env, ret, log, hlog>>

Running == job.e # 0 /\ ctl # <<>>

\* a composite node pushes the frame of its first child
Enter ==
  /\ Running /\ TopF.ph = "enter" /\ TopF.node.t \in {"not", "and", "or"}
  /\ LET child == IF TopF.node.t = "not" THEN TopF.node.e ELSE TopF.node.l IN
     ctl' = Append(SetTop([TopF EXCEPT !.ph = "left"]), Frame(child))
  /\ ret' = "-" /\ UNCHANGED <<job, env, log, hlog>>

MatchStep ==
  /\ Running /\ TopF.ph = "enter" /\ TopF.node.t = "match"
  /\ LET r == Resolve(Doc, TopF.node.sel.path, env, Cfg) IN
     ret' = IF r.r = "unm" THEN "?" ELSE IF r.r = "err" THEN "E" ELSE IF r.r = "absent" THEN AbsentTab(TopF.node.op)
            ELSE MatchOp(TopF.node.op, r.v, TopF.node.val)
  /\ hlog' = hlog \o ResolveTr(Doc, TopF.node.sel.path, env, Cfg)
  /\ ctl' = Pop /\ UNCHANGED <<job, env, log>>

NotDone ==
  /\ Running /\ TopF.ph = "left" /\ TopF.node.t = "not" /\ ret # "-"
  /\ ret' = Neg3(ret) /\ ctl' = Pop /\ UNCHANGED <<job, env, log, hlog>>

LeftDone ==
  /\ Running /\ TopF.ph = "left" /\ TopF.node.t \in {"and", "or"} /\ ret # "-"
  /\ LET goOn == (TopF.node.t = "and" /\ ret = "T") \/ (TopF.node.t = "or" /\ ret = "F") IN
     IF goOn
     THEN /\ ctl' = Append(SetTop([TopF EXCEPT !.ph = "right"]), Frame(TopF.node.r))
          /\ ret' = "-" /\ log' = Append(log, [ev |-> "right", op |-> TopF.node.t, left |-> ret])
     ELSE /\ ctl' = Pop /\ UNCHANGED <<ret, log>>          \* short circuit: the left result (false / true / error) is the result
  /\ UNCHANGED <<job, env, hlog>>

RightDone ==
  /\ Running /\ TopF.ph = "right" /\ ret # "-"
  /\ ctl' = Pop /\ UNCHANGED <<job, env, ret, log, hlog>>

CollResolve ==
  /\ Running /\ TopF.ph = "enter" /\ TopF.node.t = "coll"
  /\ LET e == TopF.node
         r == Resolve(Doc, e.sel.path, env, Cfg)
         fin(o) == /\ ret' = o /\ ctl' = Pop
     IN IF r.r = "unm" THEN fin("?")
        ELSE IF r.r = "err" THEN fin("E")
        ELSE IF r.r = "absent" THEN fin(B(e.op = "all"))
        ELSE IF r.v.k = "map" /\ ~(r.v.kt.c = "str" /\ r.v.kt.t = "string") THEN fin("E")
        ELSE IF r.v.k \notin {"map", "list"} THEN fin("E")
        ELSE IF Len(r.v.v) = 0 THEN fin(B(e.op = "all"))
        ELSE IF e.mode = "both" /\ e.n1 = e.n2 THEN fin("E")
        ELSE /\ ctl' = SetTop([TopF EXCEPT !.ph = "iter", !.i = 1, !.coll = r.v]) /\ ret' = "-"
  /\ hlog' = hlog \o ResolveTr(Doc, TopF.node.sel.path, env, Cfg)
  /\ UNCHANGED <<job, env, log>>

IterBind ==
  /\ Running /\ TopF.ph = "iter" /\ ret = "-"
  /\ LET e == TopF.node
         b == IF TopF.coll.k = "map" THEN BindMap(e, TopF.coll.v[TopF.i].key) ELSE BindList(e, TopF.i)
     IN /\ env' = env \o b
        /\ ctl' = Append(SetTop([TopF EXCEPT !.ph = "body", !.nb = Len(b)]), Frame(e.e))
        /\ log' = Append(log, [ev |-> "visit", op |-> e.op, left |-> ToString(TopF.i)])
  /\ UNCHANGED <<job, ret, hlog>>

IterDone ==
  /\ Running /\ TopF.ph = "body" /\ ret # "-"
  /\ env' = SubSeq(env, 1, Len(env) - TopF.nb)                 \* the bindings of this element go out of scope
  /\ LET e == TopF.node
         stop == ret \in {"E", "?"} \/ (ret = "T" /\ e.op = "any") \/ (ret = "F" /\ e.op = "all")
     IN IF stop THEN ctl' = Pop /\ UNCHANGED ret
        ELSE IF TopF.i = Len(TopF.coll.v) THEN ctl' = Pop /\ ret' = B(e.op = "all")
        ELSE ctl' = SetTop([TopF EXCEPT !.ph = "iter", !.i = @ + 1, !.nb = 0]) /\ ret' = "-"
  /\ UNCHANGED <<job, log, hlog>>

Done == job.e # 0 /\ ctl = <<>>
\* a finished run is printed as one trace record: the result and the resolve events in order; the harness evaluates the same
\* expression on the real evaluator with a recording hook and compares both (W.emit)
Report == W.emit => PrintT("CASE " \o ToJson([e |-> job.e, c |-> job.c, d |-> job.d, ret |-> ret, hlog |-> hlog]))
Next ==
  \/ \E e \in 1..Len(W.exprs) : \E c \in 1..Len(W.cfgs) : \E d \in 1..Len(W.docs) : Choose(e, c, d)
  \/ Enter \/ MatchStep \/ NotDone \/ LeftDone \/ RightDone \/ CollResolve \/ IterBind \/ IterDone
  \/ (Done /\ Report /\ UNCHANGED vars)
Spec == Init /\ [][Next]_vars

---------------------------------------------------------------------------
Refines == Done => ret = Outcome(W.exprs[job.e], Doc, Cfg)

RECURSIVE Bound(_, _)
Bound(s, i) == IF i > Len(s) THEN 0 ELSE s[i].nb + Bound(s, i + 1)
EnvBalanced == job.e # 0 => Len(env) = Bound(ctl, 1)

ShortCircuit == \A k \in 1..Len(log) : log[k].ev = "right" => ((log[k].op = "and" /\ log[k].left = "T") \/ (log[k].op = "or" /\ log[k].left = "F"))

\* every frame that iterates is within its collection; finished machine: nothing left in scope
InOrder == /\ \A k \in 1..Len(ctl) : ctl[k].ph \in {"iter", "body"} => (ctl[k].i >= 1 /\ ctl[k].i <= Len(ctl[k].coll.v))
           /\ (Done => env = <<>>)

\* no state other than a finished one is stuck
Progress == (job.e # 0 /\ ~Done) => ENABLED (Enter \/ MatchStep \/ NotDone \/ LeftDone \/ RightDone \/ CollResolve \/ IterBind \/ IterDone)
=============================================================================
