------------------------------- MODULE Lit -------------------------------
(***************************************************************************)
(* How the text of a literal is read in a Go kind.                         *)
(*                                                                         *)
(* go-bexpr reads the literal of a match expression in the kind of the     *)
(* value the selector resolved to (coerce.go):                             *)
(*   bool            strconv.ParseBool                                     *)
(*   intN            strconv.ParseInt(s, 0, 64)                            *)
(*   uintN           strconv.ParseUint(s, 0, 64)                           *)
(*   float32/64      strconv.ParseFloat(s, 32/64)                          *)
(*   string          the raw text                                          *)
(* This module is the reference reading.  Integers are exact: TLC integers *)
(* are 32 bit, so a 64-bit magnitude is kept in four 16-bit limbs          *)
(* (little endian).  Floats cannot be rounded in TLA+; their readings come *)
(* from the constant FloatTab (computed by exact rational arithmetic, see  *)
(* tools/floattab.py) and the model decides everything around the table:   *)
(* which width is used for which kind, error versus false, +0 = -0,        *)
(* NaN # NaN.                                                              *)
(***************************************************************************)
EXTENDS Integers, Sequences, TLC

CONSTANT FloatTab   \* literal text -> [f64 |-> bits | "syntax" | "range", f32 |-> ...]

Ch(s, i) == SubSeq(s, i, i)
Rest(s, i) == SubSeq(s, i, Len(s))      \* suffix starting at position i

LowerOf(c) ==
  CASE c = "A" -> "a" [] c = "B" -> "b" [] c = "C" -> "c" [] c = "D" -> "d" [] c = "E" -> "e"
    [] c = "F" -> "f" [] c = "G" -> "g" [] c = "H" -> "h" [] c = "I" -> "i" [] c = "J" -> "j"
    [] c = "K" -> "k" [] c = "L" -> "l" [] c = "M" -> "m" [] c = "N" -> "n" [] c = "O" -> "o"
    [] c = "P" -> "p" [] c = "Q" -> "q" [] c = "R" -> "r" [] c = "S" -> "s" [] c = "T" -> "t"
    [] c = "U" -> "u" [] c = "V" -> "v" [] c = "W" -> "w" [] c = "X" -> "x" [] c = "Y" -> "y"
    [] c = "Z" -> "z" [] OTHER -> c

\* value of a byte as a digit in ParseUint: 0-9, a-z -> 10..35, anything else 99
DigVal(c) ==
  LET l == LowerOf(c) IN
  CASE l = "0" -> 0 [] l = "1" -> 1 [] l = "2" -> 2 [] l = "3" -> 3 [] l = "4" -> 4
    [] l = "5" -> 5 [] l = "6" -> 6 [] l = "7" -> 7 [] l = "8" -> 8 [] l = "9" -> 9
    [] l = "a" -> 10 [] l = "b" -> 11 [] l = "c" -> 12 [] l = "d" -> 13 [] l = "e" -> 14
    [] l = "f" -> 15 [] l = "g" -> 16 [] l = "h" -> 17 [] l = "i" -> 18 [] l = "j" -> 19
    [] l = "k" -> 20 [] l = "l" -> 21 [] l = "m" -> 22 [] l = "n" -> 23 [] l = "o" -> 24
    [] l = "p" -> 25 [] l = "q" -> 26 [] l = "r" -> 27 [] l = "s" -> 28 [] l = "t" -> 29
    [] l = "u" -> 30 [] l = "v" -> 31 [] l = "w" -> 32 [] l = "x" -> 33 [] l = "y" -> 34
    [] l = "z" -> 35 [] OTHER -> 99

IsDec(c) == DigVal(c) <= 9 /\ LowerOf(c) = c

---------------------------------------------------------------------------
(* 64-bit magnitudes *)
B16 == 65536
Zero64 == <<0, 0, 0, 0>>

\* m * base + d, base <= 16, every intermediate below 2^21
MulAdd(m, base, d) ==
  LET t0 == m[1] * base + d   c0 == t0 \div B16
      t1 == m[2] * base + c0  c1 == t1 \div B16
      t2 == m[3] * base + c1  c2 == t2 \div B16
      t3 == m[4] * base + c2
  IN [m |-> <<t0 % B16, t1 % B16, t2 % B16, t3 % B16>>, ovf |-> (t3 \div B16) > 0]

\* m < 2^63 ;  m <= 2^63
Below2p63(m) == m[4] < 32768
AtMost2p63(m) == Below2p63(m) \/ (m[4] = 32768 /\ m[3] = 0 /\ m[2] = 0 /\ m[1] = 0)

\* does the magnitude fit in `bits` bits (unsigned) / in a signed integer of that width
FitsU(m, bits) ==
  CASE bits = 8  -> m[4] = 0 /\ m[3] = 0 /\ m[2] = 0 /\ m[1] < 256
    [] bits = 16 -> m[4] = 0 /\ m[3] = 0 /\ m[2] = 0
    [] bits = 32 -> m[4] = 0 /\ m[3] = 0
    [] OTHER     -> TRUE
FitsS(neg, m, bits) ==
  LET lim(hi) == IF neg THEN hi <= 0 ELSE hi < 0 IN   \* placeholder, see below
  CASE bits = 8  -> m[4] = 0 /\ m[3] = 0 /\ m[2] = 0 /\ (IF neg THEN m[1] <= 128 ELSE m[1] < 128)
    [] bits = 16 -> m[4] = 0 /\ m[3] = 0 /\ m[2] = 0 /\ (IF neg THEN m[1] <= 32768 ELSE m[1] < 32768)
    [] bits = 32 -> m[4] = 0 /\ m[3] = 0 /\ (IF neg THEN (m[2] < 32768 \/ (m[2] = 32768 /\ m[1] = 0)) ELSE m[2] < 32768)
    [] OTHER     -> IF neg THEN AtMost2p63(m) ELSE Below2p63(m)

\* small natural number denoted by a magnitude, or -1 when it is >= 2^16
SmallNat(m) == IF m[4] = 0 /\ m[3] = 0 /\ m[2] = 0 THEN m[1] ELSE -1

---------------------------------------------------------------------------
(* strconv.underscoreOK *)
RECURSIVE UsScan(_, _, _, _)
UsScan(s, i, saw, hex) ==           \* saw in {"^", "0", "_", "!"}
  IF i > Len(s) THEN saw # "_"
  ELSE LET c == Ch(s, i) IN
    IF IsDec(c) \/ (hex /\ DigVal(c) >= 10 /\ DigVal(c) <= 15) THEN UsScan(s, i + 1, "0", hex)
    ELSE IF c = "_" THEN (IF saw # "0" THEN FALSE ELSE UsScan(s, i + 1, "_", hex))
    ELSE IF saw = "_" THEN FALSE
    ELSE UsScan(s, i + 1, "!", hex)

UnderscoreOK(s0) ==
  LET s == IF Len(s0) >= 1 /\ (Ch(s0, 1) = "-" \/ Ch(s0, 1) = "+") THEN Rest(s0, 2) ELSE s0
      pfx == Len(s) >= 2 /\ Ch(s, 1) = "0" /\ LowerOf(Ch(s, 2)) \in {"b", "o", "x"}
  IN IF pfx THEN UsScan(s, 3, "0", LowerOf(Ch(s, 2)) = "x") ELSE UsScan(s, 1, "^", FALSE)

(* the digit loop of strconv.ParseUint *)
RECURSIVE Digits(_, _, _, _, _, _)
Digits(s, i, base, base0, m, us) ==
  IF i > Len(s) THEN [r |-> "ok", m |-> m, us |-> us]
  ELSE LET c == Ch(s, i) IN
    IF c = "_" /\ base0 THEN Digits(s, i + 1, base, base0, m, TRUE)
    ELSE LET d == DigVal(c) IN
      IF d >= base THEN [r |-> "syntax"]
      ELSE LET x == MulAdd(m, base, d) IN
        IF x.ovf THEN [r |-> "range"] ELSE Digits(s, i + 1, base, base0, x.m, us)

\* strconv.ParseUint(s, base, 64) for base in {0, 10}
ParseUintB(s, base) ==
  IF s = "" THEN [r |-> "syntax"]
  ELSE
    LET base0 == base = 0
        pick == IF base0 /\ Ch(s, 1) = "0"
                THEN (IF Len(s) >= 3 /\ LowerOf(Ch(s, 2)) = "b" THEN <<2, 3>>
                      ELSE IF Len(s) >= 3 /\ LowerOf(Ch(s, 2)) = "o" THEN <<8, 3>>
                      ELSE IF Len(s) >= 3 /\ LowerOf(Ch(s, 2)) = "x" THEN <<16, 3>>
                      ELSE <<8, 2>>)
                ELSE <<10, 1>>
        d == Digits(s, pick[2], pick[1], base0, Zero64, FALSE)
    IN IF d.r # "ok" THEN d
       ELSE IF d.us /\ ~UnderscoreOK(s) THEN [r |-> "syntax"]
       ELSE [r |-> "ok", neg |-> FALSE, m |-> d.m]

\* strconv.ParseInt(s, base, 64) for base in {0, 10}
ParseIntB(s, base) ==
  IF s = "" THEN [r |-> "syntax"]
  ELSE
    LET neg == Ch(s, 1) = "-"
        t == IF Ch(s, 1) = "+" \/ Ch(s, 1) = "-" THEN Rest(s, 2) ELSE s
        u == ParseUintB(t, base)
    IN IF u.r # "ok" THEN u
       ELSE IF ~neg /\ ~Below2p63(u.m) THEN [r |-> "range"]
       ELSE IF neg /\ ~AtMost2p63(u.m) THEN [r |-> "range"]
       ELSE [r |-> "ok", neg |-> neg /\ u.m # Zero64, m |-> u.m]

ReadInt(s) == ParseIntB(s, 0)       \* CoerceInt64
ReadUint(s) == ParseUintB(s, 0)     \* CoerceUint64
ReadInt10(s) == ParseIntB(s, 10)    \* json.Number.Int64

\* CoerceBool
ReadBool(s) ==
  IF s \in {"1", "t", "T", "TRUE", "true", "True"} THEN [r |-> "ok", b |-> TRUE]
  ELSE IF s \in {"0", "f", "F", "FALSE", "false", "False"} THEN [r |-> "ok", b |-> FALSE]
  ELSE [r |-> "syntax"]

\* CoerceFloat64 / CoerceFloat32: table lookup.  bits is the canonical IEEE bit pattern as a
\* hex string, "nan" for every NaN.
ReadFloat(s, w) ==
  IF s \notin DOMAIN FloatTab THEN Assert(FALSE, <<"literal text missing from FloatTab", s>>)
  ELSE LET e == IF w = 32 THEN FloatTab[s].f32 ELSE FloatTab[s].f64 IN
       IF e = "syntax" \/ e = "range" THEN [r |-> e] ELSE [r |-> "ok", bits |-> e]

\* IEEE equality on bit patterns: NaN equals nothing, +0 = -0
CanonF(b) == IF b = "8000000000000000" THEN "0000000000000000"
             ELSE IF b = "80000000" THEN "00000000" ELSE b
FloatEq(a, b) == a # "nan" /\ b # "nan" /\ CanonF(a) = CanonF(b)

\* strings.Contains
Contains(s, sub) == \E i \in 1..(Len(s) - Len(sub) + 1) : SubSeq(s, i, i + Len(sub) - 1) = sub
=============================================================================
