------------------------------ MODULE Validate ------------------------------
(***************************************************************************)
(* Trace validation in the direction code -> specification.                *)
(*                                                                         *)
(* A random driver in the harness builds documents by reflection (types    *)
(* the fixed zoo does not contain), derives expressions from their paths,  *)
(* evaluates them with the real code and records one observation per call: *)
(* [e |-> expression, d |-> document, c |-> configuration, o |-> outcome]. *)
(* This module steps through the recording; an observation is accepted     *)
(* when the reference semantics allows it (Den = o, or Den = "?").         *)
(***************************************************************************)
EXTENDS Integers, Sequences, TLC, Json

CONSTANT WorldFile
W == JsonDeserialize(WorldFile)
INSTANCE Den WITH FloatTab <- W.floattab, RegexTab <- W.regextab

VARIABLE i
Init == i = 1
Allowed(c) == LET s == Outcome(c.e, W.docs[c.d].av, W.cfgs[c.c]) IN s = "?" \/ s = c.o
Step ==
  /\ i <= Len(W.cases)
  /\ LET c == W.cases[i] IN
     Allowed(c) \/ ((~Allowed(c)) /\ PrintT("BAD " \o ToJson([n |-> i, spec |-> Outcome(c.e, W.docs[c.d].av, W.cfgs[c.c]), impl |-> c.o])))
  /\ i' = i + 1
Spec == Init /\ [][Step]_i
Consumed == TLCGet("stats").diameter - 1 = Len(W.cases)
=============================================================================
