----------------------------- MODULE LogicProof -----------------------------
(***************************************************************************)
(* The three-valued connective tables of Den.tla (outcomes T, F, E) and    *)
(* the algebraic consequences property C03 names, proved with TLAPS:       *)
(* double negation, both De Morgan laws, the short-circuit readings, and   *)
(* that an error of the left operand always wins.                          *)
(***************************************************************************)
EXTENDS TLAPS

O == {"T", "F", "E"}
Neg3(x) == IF x = "T" THEN "F" ELSE IF x = "F" THEN "T" ELSE x
AndTab(a, b) == IF a = "T" THEN b ELSE a
OrTab(a, b) == IF a = "F" THEN b ELSE a

THEOREM Closed == \A a, b \in O : Neg3(a) \in O /\ AndTab(a, b) \in O /\ OrTab(a, b) \in O
  BY DEF O, Neg3, AndTab, OrTab
THEOREM DoubleNegation == \A a \in O : Neg3(Neg3(a)) = a
  BY DEF O, Neg3
THEOREM DeMorganAnd == \A a, b \in O : Neg3(AndTab(a, b)) = OrTab(Neg3(a), Neg3(b))
  BY DEF O, Neg3, AndTab, OrTab
THEOREM DeMorganOr == \A a, b \in O : Neg3(OrTab(a, b)) = AndTab(Neg3(a), Neg3(b))
  BY DEF O, Neg3, AndTab, OrTab
THEOREM ShortCircuitAnd == \A a, b \in O : a # "T" => AndTab(a, b) = a
  BY DEF O, AndTab
THEOREM ShortCircuitOr == \A a, b \in O : a # "F" => OrTab(a, b) = a
  BY DEF O, OrTab
THEOREM LeftErrorWins == \A b \in O : AndTab("E", b) = "E" /\ OrTab("E", b) = "E" /\ Neg3("E") = "E"
  BY DEF O, Neg3, AndTab, OrTab
THEOREM Associative == \A a, b, c \in O : AndTab(AndTab(a, b), c) = AndTab(a, AndTab(b, c)) /\ OrTab(OrTab(a, b), c) = OrTab(a, OrTab(b, c))
  BY DEF O, AndTab, OrTab
=============================================================================
