------------------------------- MODULE Laws -------------------------------
(***************************************************************************)
(* The listed algebraic properties, stated on the reference semantics and  *)
(* checked by TLC on every tree the enumerator builds (Cases.tla).         *)
(*                                                                         *)
(*  LawConn    C03  and/or/not are functions of the parts' outcomes (the   *)
(*                  3x3 tables), double negation and De Morgan hold        *)
(*  LawNeg     C04  a negated operator is Neg3 of the positive one, also   *)
(*                  when the key is absent                                 *)
(*  LawUnroll  C06  a quantifier equals the early-exit fold of its body    *)
(*                  over the elements, element paths substituted for the   *)
(*                  value binding                                          *)
(*  LawSpell   C07  the outcome does not depend on the selector type       *)
(***************************************************************************)
EXTENDS Cases

Cfgs == 1..Len(W.cfgs)
Docs == 1..Len(W.docs)
Out(e, c, d) == Outcome(e, W.docs[d].av, W.cfgs[c])
Finished == Len(stk) = 1

LawConn ==
  Finished =>
    LET e == Top.full IN
    \A c \in Cfgs : \A d \in Docs :
      /\ e.t = "and" => /\ Out(e, c, d) = AndTab(Out(e.l, c, d), Out(e.r, c, d))
                        /\ Neg3(Out(e, c, d)) = OrTab(Neg3(Out(e.l, c, d)), Neg3(Out(e.r, c, d)))
                        /\ (Out(e.l, c, d) # "T" => Out(e, c, d) = Out(e.l, c, d))            \* short circuit
      /\ e.t = "or"  => /\ Out(e, c, d) = OrTab(Out(e.l, c, d), Out(e.r, c, d))
                        /\ Neg3(Out(e, c, d)) = AndTab(Neg3(Out(e.l, c, d)), Neg3(Out(e.r, c, d)))
                        /\ (Out(e.l, c, d) # "F" => Out(e, c, d) = Out(e.l, c, d))
      /\ e.t = "not" => /\ Out(e, c, d) = Neg3(Out(e.e, c, d))
                        /\ Neg3(Out(e, c, d)) = Out(e.e, c, d)                                  \* double negation

NegOf(op) == CASE op = "==" -> "!=" [] op = "in" -> "notin" [] op = "empty" -> "notempty" [] op = "matches" -> "notmatches"
LawNeg ==
  Finished =>
    LET e == Top.full IN
    (e.t = "match" /\ ~IsNegOp(e.op)) =>
      \A c \in Cfgs : \A d \in Docs :
        LET ne == [e EXCEPT !.op = NegOf(e.op)] IN
        /\ Out(ne, c, d) = Neg3(Out(e, c, d))
        /\ Out(ne, c, d) = Out([t |-> "not", e |-> e], c, d)

\* substitution of an element path for a value binding, respecting shadowing
RECURSIVE Subst(_, _, _)
SubSel(s, name, path) == IF Len(s.path) > 0 /\ s.path[1] = name THEN [s EXCEPT !.path = path \o Tail(s.path)] ELSE s
Subst(e, name, path) ==
  CASE e.t = "match" -> [e EXCEPT !.sel = SubSel(e.sel, name, path)]
    [] e.t = "not" -> [e EXCEPT !.e = Subst(e.e, name, path)]
    [] e.t \in {"and", "or"} -> [e EXCEPT !.l = Subst(e.l, name, path), !.r = Subst(e.r, name, path)]
    [] e.t = "coll" -> [e EXCEPT !.sel = SubSel(e.sel, name, path),
                                 !.e = IF e.n1 = name \/ e.n2 = name THEN e.e ELSE Subst(e.e, name, path)]

RECURSIVE FoldOut(_, _, _)
FoldOut(op, el, i) ==
  IF i > Len(el) THEN B(op = "all")
  ELSE IF el[i] = "E" THEN "E"
  ELSE IF (op = "any" /\ el[i] = "T") \/ (op = "all" /\ el[i] = "F") THEN el[i]
  ELSE FoldOut(op, el, i + 1)

\* names bound to the position (key / index) rather than to the element
RECURSIVE FreeRoots(_, _)
FreeRoots(e, bound) ==
  CASE e.t = "match" -> IF e.sel.path[1] \in bound THEN {} ELSE {e.sel.path[1]}
    [] e.t = "not" -> FreeRoots(e.e, bound)
    [] e.t \in {"and", "or"} -> FreeRoots(e.l, bound) \cup FreeRoots(e.r, bound)
    [] e.t = "coll" -> (IF e.sel.path[1] \in bound THEN {} ELSE {e.sel.path[1]}) \cup FreeRoots(e.e, bound \cup ({e.n1, e.n2} \ {""}))

LawUnroll ==
  Finished =>
    LET e == Top.full IN
    e.t = "coll" =>
      \A c \in Cfgs : \A d \in Docs :
        LET p == ElemParts(e, W.docs[d].av, W.cfgs[c])
            keyN == CASE e.mode = "default" -> IF p.kind = "map" THEN {e.n1} ELSE {}
                      [] e.mode = "index" -> {e.n1} [] e.mode = "value" -> {} [] e.mode = "both" -> {e.n1}
            alias == CASE e.mode = "default" -> IF p.kind = "map" THEN "" ELSE e.n1
                       [] e.mode = "index" -> "" [] e.mode = "value" -> e.n2 [] e.mode = "both" -> e.n2
        \* (a position name equal to the collection's own root shadows it inside the braces: the element alias cannot be resolved
        \* there, while the unrolled bodies stand outside the braces - no unrolling law for that shape)
        IN (p.ok /\ ~(e.mode = "both" /\ e.n1 = e.n2) /\ FreeRoots(e.e, {}) \cap keyN = {} /\ (alias = "" \/ e.sel.path[1] \notin keyN)) =>
             Out(e, c, d) = FoldOut(e.op, [i \in 1..Len(p.parts) |->
                                Out(IF alias = "" THEN e.e ELSE Subst(e.e, alias, e.sel.path \o <<p.parts[i]>>), c, d)], 1)

RECURSIVE Retype(_, _)
Retype(e, ty) ==
  CASE e.t = "match" -> [e EXCEPT !.sel.ty = ty]
    [] e.t = "not" -> [e EXCEPT !.e = Retype(e.e, ty)]
    [] e.t \in {"and", "or"} -> [e EXCEPT !.l = Retype(e.l, ty), !.r = Retype(e.r, ty)]
    [] e.t = "coll" -> [e EXCEPT !.sel.ty = ty, !.e = Retype(e.e, ty)]
LawSpell ==
  Finished => \A c \in Cfgs : \A d \in Docs : Out(Retype(Top.full, "ptr"), c, d) = Out(Retype(Top.full, "bexpr"), c, d)
=============================================================================
