#!/usr/bin/env python3
"""C12 - one Evaluator or Filter can be shared by concurrent goroutines.

Model: spec/Conc.tla - G goroutines x Calls calls on one shared syntax tree whose `matches` nodes have cache cells; in
the specified protocol (cells filled by CreateEvaluator, read-only afterwards) TLC checks RaceFree (no two goroutines
about to access the same cell with at least one write), SeqEquivalent and ReadOnlyAfterCreate over every interleaving;
the pre-repair protocol ("lazy") is kept and TLC reports the race as a counterexample (thorough tier documents it).
Binding: the harness, built with Go's race detector, runs every scenario of the model's scenario space (expression x
{2,4,16} goroutines x {1,3} calls x {shared evaluator, shared filter, concurrent creation} x {first use, warmed up})
with free-running goroutines released from one barrier, on expressions covering every operator, quantifiers over
selectors of 1..8 segments, unknown-value / hook / tag options.  Verdict: a DATA RACE report whose stack is inside
go-bexpr, or a concurrent call returning something else than the sequential call."""
import json, os, re, subprocess, sys
sys.path.insert(0, os.path.dirname(os.path.abspath(__file__)))
import vlib


def main():
    chk = vlib.Check("C12")
    quick = chk.tier == "quick"
    wd = vlib.sub("c12")
    world = {"exprs": list(range(14))}
    cfg = ('SPECIFICATION Spec\nCONSTANTS MODE = "create"\n G = %d\n Calls = 2\n NCells = 2\n WorldFile = "world.json"\n'
           'INVARIANTS RaceFree SeqEquivalent TypeOK\nPROPERTY ReadOnlyAfterCreate\nCHECK_DEADLOCK FALSE\n' % (2 if quick else 3))
    r = vlib.run_tlc("Conc", cfg, wd, files={"world.json": world}, timeout=1800, want_cases=True)
    chk.add_tlc(r)
    if r.violation:
        raise vlib.Infra("the specified protocol violates %s in the model" % r.violation)
    # unbounded: TLAPS proves RaceFree for any number of goroutines, calls and cells (spec/ConcProof.tla)
    vlib.run_tlaps(chk, "ConcProof")
    if not quick:
        cfg2 = cfg.replace('MODE = "create"', 'MODE = "lazy"').replace("PROPERTY ReadOnlyAfterCreate\n", "")
        r2 = vlib.run_tlc("Conc", cfg2, vlib.sub("c12-lazy"), files={"world.json": world}, timeout=1800)
        chk.notes["lazy_protocol_counterexample"] = r2.violation or "none found"
    # the real code under the race detector
    exe = vlib.build_harness(race=True)
    rounds = 2 if quick else 10
    gfile = os.path.join(wd, "groups.ndjson")
    p = subprocess.run([exe, "conc", "-rounds", str(rounds), "-groups", gfile], capture_output=True, text=True, timeout=3000, env=dict(vlib.GOENV, GORACE="halt_on_error=0 history_size=5"))
    races = p.stderr.count("WARNING: DATA RACE")
    if p.returncode not in (0, 66) or not p.stdout.strip():
        raise vlib.Infra("conc run failed (%d):\n%s" % (p.returncode, p.stderr[-2000:]))
    res = json.loads(p.stdout)
    vlib.log("conc: %d scenarios, %d concurrent calls, %d mismatches, %d race reports" % (res["scenarios"], res["calls"], len(res["mismatches"]), races))
    if races:
        blocks = p.stderr.split("WARNING: DATA RACE")[1:]
        seen = set()
        for b in blocks:
            frames = [l.strip() for l in b.splitlines() if "go-bexpr" in l or "/repo" in l or vlib.REPO in l]
            frames = [f for f in frames if "harness" not in f]
            key = " | ".join(frames[:4])
            if frames and key not in seen:
                seen.add(key)
                chk.violation({"what": "DATA RACE reported by the Go race detector", "frames": frames[:8]})
        if not seen:
            raise vlib.Infra("race reports without go-bexpr frames:\n" + p.stderr[:3000])
    # every 7th concurrent call (and every deviating one) as an observation group (sequential, concurrent), validated by Rel.tla
    for g in vlib.validate_groups(chk, wd, gfile):
        chk.violation({"what": "a concurrent call returned something else than the sequential call", "group": g["obs"], **g["info"]})
    for m in res["mismatches"][:3]:
        vlib.log("mismatch:", json.dumps(m)[:300])
    # a timed stress run without the race detector (fast): torn non-atomic updates only show under very many overlapping calls
    sp = vlib.harness(["stress", "-secs", "4" if quick else "60"], timeout=600)
    st = json.loads(sp.stdout)
    vlib.log("stress: %d overlapping calls on shared evaluators, %d mismatches" % (st["calls"], len(st["mismatches"])))
    for m in st["mismatches"]:
        chk.violation({"what": "a concurrent call returned something else than the sequential call (stress run)", **m})
    res["calls"] += st["calls"]
    chk.cov["evaluations"] = res["calls"]
    chk.cov["distinct_nontrivial"] = res["scenarios"]
    chk.cov["traces_validated_against_impl"] += res["scenarios"]
    chk.sample({"scenario": "shared evaluator, 16 goroutines x 3 calls, first use", "expr": "all a.b.c as v { v.x == 1 and v.y != 2 }"})
    chk.notes["race_detector"] = "go build -race; goroutines released from one barrier, no hooks, no gates"
    chk.notes["rule"] = ("%d rounds x 14 expressions x {2,4,16} goroutines x {1,3} calls x 3 sharing modes x {first use, warm}; "
                         "non-trivial = scenarios run under the race detector" % rounds)
    chk.assumptions.append("memory-level races are detected by Go's happens-before race detector on the schedules that ran; the TLA+ model decides the cache protocol")
    return chk.finish()


if __name__ == "__main__":
    vlib.main(main, "C12")
