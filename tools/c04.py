#!/usr/bin/env python3
"""C04 - negated operators are exact complements; contains is in with operands flipped.

TLC enumerates every (selector, literal) atom of the worlds with a positive operator (checking LawNeg on the
reference semantics); the harness evaluates the positive form, the negated operator, `not (positive)` and, for
membership, the contains spelling with the real code; Rel.tla checks each recorded group."""
import json, os, random, sys
sys.path.insert(0, os.path.dirname(os.path.abspath(__file__)))
import vlib

WORLDS = [("scalars", [0], 2), ("containers", [0], 2), ("json", [0, 2], 3), ("records", [0], 3), ("tagged", [0, 1], 2)]


def main():
    chk = vlib.Check("C04")
    rnd = random.Random(chk.seed)
    quick = chk.tier == "quick"
    nontrivial = 0
    byop = {}
    for wn, cfgsel, depth in WORLDS:
        data = json.loads(vlib.harness(["data", "-worlds", wn]).stdout)
        atoms, _ = vlib.atoms_for_docs(data["docs"], depth, rnd, per_path=4 if quick else None,
                                       ops_v=["==", "in", "matches"], ops_e=["empty"])
        world = vlib.make_world([wn], data["docs"], data["cfgs"], cfgsel, atoms, [], [], 1)
        tag = "c04-" + wn
        summ, bad = vlib.run_relate(chk, tag, world, "c04", invariants=("BuilderOK", "LawNeg"), module="Laws")
        chk.cov["evaluations"] += summ["evals"]
        for l in open(os.path.join(vlib.sub(tag), "groups.ndjson")):
            g = json.loads(l)
            if g["rel"] == "neg":
                byop[(g["op"], g["a"])] = byop.get((g["op"], g["a"]), 0) + 1
                if g["a"] in "TF":
                    nontrivial += 1
        for g in bad:
            chk.violation({"law": g["info"].get("law", g["rel"]), "group": {k: v for k, v in g.items() if k != "info"}, "info": g["info"]})
        for s in summ["samples"][:2]:
            chk.sample(s)
    chk.cov["distinct_nontrivial"] = nontrivial
    chk.notes["pairs_by_operator_and_positive_outcome"] = {" ".join(k): v for k, v in sorted(byop.items())}
    chk.notes["rule"] = ("every structural selector path of the worlds (present, absent at leaf / intermediate / root, nil, non-collections) x "
                         "literals of the node's kind and ill-typed ones x {==, in, is empty, matches} x documents x configurations; "
                         "non-trivial = the positive form returned true or false")
    chk.notes["exhaustive"] = True
    return chk.finish()


if __name__ == "__main__":
    vlib.main(main, "C04")
