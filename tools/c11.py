#!/usr/bin/env python3
"""C11 - WithMaxExpressions is an exact, monotone budget on parser work.

Model: spec/Peg.tla counts one step per parseExpr call and aborts when the count exceeds the budget; for every
enumerated input TLC asserts BudgetOK: with N the unlimited step count, budgets n >= N give exactly the unlimited
result, budgets 0 < n < N abort, and no run takes more than n + 1 steps (budgets 1, 2, N/2, N-1, N, N+1, 2N).
Conformance (real against real): for every input the harness measures N with the step hook, parses under budgets
2^22, 2N, N+1, N, N-1, N/2, 2, 1 and compares each with the unlimited result (same tree / same error text) or the
budget error, checks steps <= n + 1 and that an unlimited parse afterwards is unchanged; N itself is compared with
the specification's count (fingerprint).  Pathological nesting (16..64 parentheses) must be rejected within the budget."""
import json, os, random, sys
sys.path.insert(0, os.path.dirname(os.path.abspath(__file__)))
import vlib, pegrun


def main():
    chk = vlib.Check("C11")
    rnd = random.Random(chk.seed)
    quick = chk.tier == "quick"
    toks = pegrun.tokens(chk.tier)
    wd = vlib.sub("c11")
    trees, rows = pegrun.rendered_seeds(rnd, 40 if quick else 160, 3, wd)
    seeds = []
    for r in rows:
        s = pegrun.syms(r["text"])
        if s is not None and 0 < r["steps"] <= (3000 if quick else 8000):
            seeds.append(s)
            seeds.append(pegrun.mutate(rnd, s))
    seeds += [pegrun.syms(t) for t in ["foo == 3 x", "(a == 1) and b == 2", "a == 1 )", "(a == 1", "a == 1 and", "a", "", "((a == 1))", "not not a == 1"]]
    seeds = pegrun.cheap(seeds, 3000 if quick else 8000, wd)
    rnd.shuffle(seeds)
    seeds = seeds[:(160 if quick else 420)]
    world = pegrun.peg_world(toks, 1 if quick else 2, 1, seeds, budgets=True, checked=True)
    res = pegrun.run_peg(chk, "c11", world, shapes=False)
    # long inputs that fail early (few steps, many bytes), deep but linear nesting (many steps, no exponential blow-up): these are
    # outside the model run (too long for TLC); the budget relation is real against real anyway
    special = [list("== ") + ["a"] * 3000, list(") ") + list("x == 1 and ") * 200, list("a == 1 ") + [")"] * 1500, ["<B>"] + ["z"] * 2500,
               list("not ") * 120 + list("a == 1"), list("not ") * 300 + list("a == 1"), list("a == 1 and ") * 150 + list("b == 2"),
               list("any a as x { ") * 40 + list("x == 1") + list(" }") * 40]
    special = pegrun.cheap(special, 2000000, wd)
    with open(os.path.join(wd, "special.ndjson"), "w") as fh:
        for sp in special:
            fh.write(json.dumps({"inp": sp, "obs": {"acc": "?"}, "cnt": 0, "errs": 0, "bud": {"real": "only"}, "seed": 0, "rt": True}) + "\n")
    vlib.harness(["parse", "-cases", os.path.join(wd, "special.ndjson"), "-out", os.path.join(wd, "special.json"), "-shapes=false"])
    sres = json.load(open(os.path.join(wd, "special.json")))
    vlib.log("c11: %d long / deep inputs outside the model: %d budgeted parses, %d budget problems" % (sres["inputs"], sres["budgetruns"], len(sres.get("budget") or [])))
    res["budget"] += sres.get("budget") or []
    res["budgetruns"] += sres["budgetruns"]
    for m in res["budget"]:
        chk.violation({"input": m["input"][:200], "what": m["what"], "expected": m["spec"], "impl": m["impl"]})
    chk.cov["evaluations"] = res["inputs"] + res["budgetruns"]
    chk.cov["distinct_nontrivial"] = res["budgetruns"]
    # creation-level: the option reaches the parser, and only a non-zero one
    rows = json.loads(vlib.harness(["nest"]).stdout)
    for r in rows:
        if not r["ok"]:
            chk.violation({"what": "pathological nesting under a budget", **r})
    chk.cov["evaluations"] += len(rows)
    for s in res["samples"][:3]:
        chk.sample(s)
    chk.sample(rows[0])
    chk.notes["step_count_mismatches_spec_vs_impl (fingerprint)"] = len(res["steps"])
    chk.notes["step_traces_compared (kind and position of every parseExpr call, spec vs hook)"] = res.get("tracescompared", 0)
    chk.notes["nesting_runs"] = len(rows)
    chk.notes["rule"] = ("inputs: every sequence of <= %d tokens + %d renderings / mutations of random trees (valid, invalid, trailing garbage, "
                         "parenthesised) x budgets {2^22, 2N, N+1, N, N-1, N/2, 2, 1} around the measured step count N; 16..64 nested parentheses "
                         "(balanced, unmatched, spaced) x budgets {1, 1000, 2^16, 2^22}; non-trivial = budgeted parses compared" % (world["maxtok"], len(seeds)))
    return chk.finish()


if __name__ == "__main__":
    vlib.main(main, "C11")
