#!/usr/bin/env python3
"""C20 - the shipped generated parser is the one the shipped grammar describes.

Two extractors run on /repo at check time: tools/peg2json.py (a reader of pigeon's meta-syntax) on grammar.peg and the
harness's `gram` command (go/ast) on grammar.go's rule table and on*/callon* functions.  Both tables are reshaped into
one canonical form and TLC evaluates spec/GrammarEq.tla: Diff = {} is a complete structural comparison of every rule,
node, label, literal, character class (source text AND the derived chars / ranges / classes / inverted fields),
rule reference, repetition operator, action wiring (pigeon's on<Rule><preorder index> numbering, callon -> on, stack
arguments = labels in scope) and action body (go/format-normalised).  Dynamic cross-check: the TLA+ PEG engine run on
the table read from grammar.peg must reproduce the real parser's step counts (see C11/C15)."""
import json, os, sys
sys.path.insert(0, os.path.dirname(os.path.abspath(__file__)))
import vlib
import peg2json


def canon_peg(n, rule, scope):
    """canonical node of the grammar side; scope = labels visible to a code predicate at this point"""
    t = n["t"]
    out = {"t": t, "es": [], "label": "", "name": "", "val": "", "want": "", "ic": False, "inv": False, "chars": [], "ranges": [], "classes": [],
           "fn": "", "params": [], "body": "", "pos": n.get("pos", [])}
    if t in ("choice",):
        out["es"] = [canon_peg(c, rule, []) for c in n["es"]]
    elif t == "seq":
        labels = []
        for c in n["es"]:
            out["es"].append(canon_peg(c, rule, list(labels)))
            if c["t"] == "lab":
                labels.append(c["label"])
    elif t == "act":
        inner = n["e"]
        labs = [c["label"] for c in (inner["es"] if inner["t"] == "seq" else [inner]) if c["t"] == "lab"]
        out["fn"], out["params"], out["body"] = n["name"], labs, n["body"]
        out["es"] = [canon_peg(inner, rule, [])]
    elif t == "lab":
        out["label"] = n["label"]
        out["es"] = [canon_peg(n["e"], rule, [])]
    elif t in ("and", "not", "opt", "star", "plus"):
        out["es"] = [canon_peg(n["e"], rule, [])]
    elif t == "ref":
        out["name"] = n["name"]
    elif t == "lit":
        out["val"], out["want"], out["ic"] = n["val"], n["want"], n["ic"]
    elif t == "cls":
        for k in ("val", "chars", "ranges", "classes", "ic", "inv"):
            out[k] = n[k]
    elif t in ("andcode", "notcode"):
        out["fn"], out["params"], out["body"] = n["name"], scope, n["body"]
    return out


def canon_go(n, go, used):
    t = n["t"]
    out = {"t": t, "es": [], "label": n.get("label", ""), "name": "", "val": "", "want": "", "ic": False, "inv": False, "chars": [], "ranges": [], "classes": [],
           "fn": "", "params": [], "body": "", "pos": n.get("pos") or []}
    kids = list(n.get("es") or []) + ([n["e"]] if n.get("e") else [])
    out["es"] = [canon_go(c, go, used) for c in kids]
    if t in ("act", "andcode", "notcode"):
        callon = n["name"]
        used.append(callon)
        c = go["callons"].get(callon)
        if c is None:
            out["fn"], out["body"] = "missing " + callon, ""
        else:
            f = go["funcs"].get(c["calls"])
            # the wrapper must call the function of the same name and pass exactly the labels the function takes
            out["fn"] = c["calls"] if callon == "callon" + c["calls"][2:] else "%s calls %s" % (callon, c["calls"])
            out["params"] = c["args"] if f is not None and c["args"] == f["params"] else ["wrapper passes %s to %s" % (c["args"], f and f["params"])]
            out["body"] = f["body"] if f is not None else "missing " + c["calls"]
    elif t == "ref":
        out["name"] = n["name"]
    elif t == "lit":
        out["val"], out["want"], out["ic"] = n["val"], n["want"], n["ic"]
    elif t == "cls":
        for k in ("val", "chars", "ranges", "classes", "ic", "inv"):
            out[k] = n[k]
    if t != "lab":
        out["label"] = ""
    return out


def tables(repo):
    wd = vlib.sub("c20")
    peg = peg2json.read(os.path.join(repo, "grammar", "grammar.peg"))
    with open(os.path.join(wd, "peg.json"), "w") as fh:
        json.dump(peg, fh)
    p = vlib.harness(["gram", "-go", os.path.join(repo, "grammar", "grammar.go"), "-peg", os.path.join(wd, "peg.json")])
    g = json.loads(p.stdout)
    pegc = {"rules": [{"name": r["name"], "display": r["display"], "pos": r["pos"], "expr": canon_peg(r["expr"], r["name"], [])} for r in g["peg"]["rules"]]}
    used = []
    goc = {"rules": [{"name": r["name"], "display": r["display"], "pos": r["pos"] or [], "expr": canon_go(r["expr"], g["go"], used)} for r in g["go"]["rules"]]}
    orphans = sorted(set(g["go"]["callons"]) - set(used)) + sorted(f for f in g["go"]["funcs"] if "callon" + f[2:] not in g["go"]["callons"]) \
        + sorted({u for u in used if used.count(u) > 1})
    goc["orphans"] = orphans
    return {"peg": pegc, "go": goc}, g


def main():
    chk = vlib.Check("C20", level="translation_validation")
    try:
        t, raw = tables(vlib.REPO)
    except peg2json.PegError as e:
        chk.violation({"what": "grammar.peg cannot be read", "detail": str(e)})
        chk.cov.update({"programs": 1, "disagreements_checked": 1})
        return chk.finish()
    wd = vlib.sub("c20")
    cfg = 'SPECIFICATION Spec\nCONSTANT TableFile = "tables.json"\nCHECK_DEADLOCK FALSE\n'
    r = vlib.run_tlc("GrammarEq", cfg, wd, files={"tables.json": t}, workers=1, timeout=600)
    chk.add_tlc(r)
    if len(r.cases) != 1:
        raise vlib.Infra("GrammarEq printed %d results" % len(r.cases))
    res = r.cases[0]
    for d in res["diff"]:
        chk.violation({"where": d["at"], "field": d["field"], "grammar.peg": d["peg"], "grammar.go": d["go"]})
    for o in res["orphans"]:
        chk.violation({"where": o, "field": "function not wired to exactly one table node"})
    chk.cov["programs"] = res["nodes"] + res["rules"]
    chk.cov["disagreements_checked"] = len(res["diff"]) + len(res["orphans"])
    chk.cov["evaluations"] = res["nodes"]
    chk.cov["distinct_nontrivial"] = res["nodes"]
    chk.sample({"rule": t["peg"]["rules"][17]["name"], "node": {k: v for k, v in t["peg"]["rules"][17]["expr"].items() if k != "es"}})
    chk.notes["rules"], chk.notes["nodes"] = res["rules"], res["nodes"]
    chk.notes["stale_source_positions"] = len(res["pos"])
    chk.notes["rule"] = "every rule and every expression node of grammar.peg against grammar.go's table and functions; complete, no sampling"
    chk.notes["exhaustive"] = True
    chk.assumptions += ["tools/peg2json.py reads pigeon's meta-syntax as pigeon does (cross-examined: on the unchanged tree the two tables coincide in "
                        "every node incl. source positions, and the TLA+ PEG engine on the grammar-side table reproduces the real parser's step counts)",
                        "the generic engine below the table (parseExpr and friends) is pigeon's; its behaviour is modelled in Peg.tla and checked by C10/C11/C15"]
    return chk.finish()


if __name__ == "__main__":
    vlib.main(main, "C20")
