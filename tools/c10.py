#!/usr/bin/env python3
"""C10 - creating an evaluator is total on arbitrary bytes: evaluator xor error, no panic.

Model: spec/Peg.tla - the engine terminates on every input with one of the result shapes (ShapeOK is asserted for
every enumerated input), panics raised inside the engine (budget) are recovered into (nil, error).
Conformance: (a) every sequence of <= k tokens (incl. invalid UTF-8, NUL, unterminated and badly escaped strings, first
byte invalid) is handed to the real grammar.Parse, CreateEvaluator and CreateFilter: no panic, value xor error, the
three agree on acceptance (and with the specification), a returned evaluator evaluates, a returned tree dumps;
(b) Go native fuzzing (coverage guided, offline) of the same assertions from a grammar-derived corpus for a bounded time."""
import glob, json, os, random, subprocess, sys
sys.path.insert(0, os.path.dirname(os.path.abspath(__file__)))
import vlib, pegrun


def fuzz(chk, secs):
    vlib.build_harness()
    src = vlib.sub("harness-src")
    env = dict(vlib.GOENV, GOCACHE=os.path.join(vlib.scratch(), "gocache-fuzz"))
    # the compiled packages are taken from the default cache; only the fuzz corpus cache is private
    env["GOCACHE"] = os.environ.get("GOCACHE", os.path.expanduser("~/.cache/go-build"))
    cmd = ["go", "test", "-tags", "verif", "-run", "^$", "-fuzz", "FuzzCreate", "-fuzztime", "%ds" % secs, "./fuzz"]
    p = subprocess.run(cmd, cwd=src, env=env, capture_output=True, text=True, timeout=secs + 600)
    out = p.stdout + p.stderr
    execs = 0
    for line in out.splitlines():
        if "execs:" in line:
            try:
                execs = int(line.split("execs:")[1].split()[0])
            except ValueError:
                pass
    crashers = glob.glob(os.path.join(src, "fuzz", "testdata", "fuzz", "FuzzCreate", "*"))
    if p.returncode != 0 and not crashers:
        # a failure on the seed corpus writes no crasher file: reproduce it by running the seeds alone, in a fresh process
        q = subprocess.run(["go", "test", "-tags", "verif", "-run", "FuzzCreate", "./fuzz"], cwd=src, env=env, capture_output=True, text=True, timeout=600)
        qo = q.stdout + q.stderr
        if q.returncode != 0 and "FuzzCreate" in qo:
            msg = [l.strip() for l in qo.splitlines() if "fuzz_test.go" in l or "panic:" in l or "--- FAIL" in l]
            chk.violation({"what": "an input of the fuzzing seed corpus violates the result shapes", "detail": " | ".join(msg)[:800]})
            return execs
        raise vlib.Infra("go test -fuzz failed without a crasher:\n" + out[-2000:])
    for c in crashers:
        # reproduce in a fresh process
        q = subprocess.run(["go", "test", "-tags", "verif", "-run", "FuzzCreate/" + os.path.basename(c), "./fuzz"], cwd=src, env=env, capture_output=True, text=True, timeout=600)
        if q.returncode != 0:
            msg = [l for l in (q.stdout + q.stderr).splitlines() if "fuzz_test.go" in l or "panic" in l]
            chk.violation({"what": "fuzzing found an input violating the result shapes", "input_file": open(c).read()[:400], "detail": " | ".join(msg)[:600]})
    vlib.log("fuzz: %d executions in %ds, %d crashers" % (execs, secs, len(crashers)))
    return execs


def main():
    chk = vlib.Check("C10")
    rnd = random.Random(chk.seed)
    quick = chk.tier == "quick"
    toks = pegrun.tokens(chk.tier) + [["<B>", "f", "o", "o"], ["<B>", "<B>"], ["\\"], ['"', "\\", "x", '"'], ['"', "\\", "u", "1", "2", '"'], ["~"], ["'"], ["a", "<0>"]]
    wd = vlib.sub("c10")
    seeds = [pegrun.syms(t) for t in ["", " ", "()", "(", ")", "a ==", "== 1", "a == 1 x", "not", "all a as { }", "any a as x {", "a[", 'a["x"', "a[1]", "a.", "a..b", '"/a/" == 1',
                                      "a == 1 and", "a in", "1 in", "a is", "a is not", "a is not empty or", 'a matches "("', "a == 1 and b == 2 or c == 3", "all a as x, x { x == 1 }", 'any x as v { "" is empty }', '"" == 1', 'all m as k, v { "" != 1 }', 'any x as v { "" in v }', 'foo matches "("', 'a not matches "[a"', 'any x as v { v matches "(" }', 'm.k matches ")" or foo matches "a(b"', 'foo matches ""', " a == 1 ", "\ta == 1\n", "a == 1\r\n", "\n\n(a == 1)  "]]
    seeds += [["<B>"] + s for s in seeds[:8]] + [s + ["<B>"] for s in seeds[:8]]
    seeds += [pegrun.syms(t) for t in pegrun.EXTRA_TEXTS]
    if not quick:
        # renderings of random trees and token-level mutations of them (the engine invariants are asserted on every step: with them on
        # TLC manages ~40 inputs a second, so the 3-token sequences are left to C15's thorough tier, which runs without them)
        _, rows = pegrun.rendered_seeds(rnd, 250, 3, wd)
        for r in rows:
            sy = pegrun.syms(r["text"])
            if sy is not None and 0 < r["steps"] <= 3000:
                seeds += [sy, pegrun.mutate(rnd, sy), pegrun.mutate(rnd, sy)]
    seeds = pegrun.cheap([s for s in seeds if s is not None], 20000 if quick else 3000, wd)
    # the engine invariants (Contract) are asserted on every step of the single tokens and the prefabricated inputs; all 2-token
    # sequences go through the model without them (with them TLC manages ~40 inputs a second)
    cworld = pegrun.peg_world(toks, 1, 1, seeds, checked=True, later=pegrun.LATER[:16])
    cres = pegrun.run_peg(chk, "c10-contracts", cworld, shapes=True)
    world = pegrun.peg_world(toks, 2, 1, [], later=pegrun.LATER[:16])
    res = pegrun.run_peg(chk, "c10", world, shapes=True)
    for k in ("shape", "language", "samples"):
        res[k] = res[k] + cres[k]
    for k, v in cres["byacc"].items():
        res["byacc"][k] = res["byacc"].get(k, 0) + v
    res["inputs"] += cres["inputs"]
    chk.cov["evaluations"] = res["inputs"]
    for m in res["shape"]:
        chk.violation({"input": m["input"], "what": m["what"], "impl": m["impl"]})
    # valid but expensive inputs (millions of parser steps: too many for the model, the three entry points are compared with each
    # other): deep parentheses, very long chains, long literals
    special = [list("(" * d + "a == 1" + ")" * d) for d in ((8, 9) if quick else (8, 9, 10))] + \
              [list("a == 1 and " * 17000 + "b == 2"), list("not " * 4000 + "a == 1"), list('a == "' + "x" * 300000 + '"'), list("a." + "b." * 50000 + "c == 1")]
    if not quick:
        special += [list("a == 1 or " * 20000 + "b == 2"), list("(" * 9 + "a == 1" + ")" * 8)]
    with open(os.path.join(wd, "special.ndjson"), "w") as fh:
        for sp in special:
            fh.write(json.dumps({"inp": sp, "obs": {"acc": "?"}, "cnt": 0, "errs": 0, "bud": {}, "seed": 0, "rt": True}) + "\n")
    vlib.harness(["parse", "-cases", os.path.join(wd, "special.ndjson"), "-out", os.path.join(wd, "special.json"), "-shapes=true"])
    sres = json.load(open(os.path.join(wd, "special.json")))
    vlib.log("c10: %d expensive inputs outside the model %s: %d shape problems" % (sres["inputs"], sres["byacc"], len(sres.get("shape") or [])))
    for m in sres.get("shape") or []:
        chk.violation({"input": m["input"][:120] + "... (%d bytes)" % len(m["input"]), "what": m["what"], "impl": m["impl"]})
    chk.cov["evaluations"] += sres["inputs"]
    chk.notes["expensive_inputs_outside_the_model"] = sres["byacc"]
    # many distinct expressions in one process (whatever is remembered between creations must not change the n-th result)
    mres = json.loads(vlib.harness(["many", "-n", "300" if quick else "3000"]).stdout)
    vlib.log("c10: %d creations of distinct expressions in one process: %d problems" % (mres["runs"], len(mres["bad"])))
    for m in mres["bad"]:
        chk.violation({"input": m["expr"], "what": m["what"], "impl": ""})
    chk.cov["evaluations"] += mres["runs"]
    # accept / reject agreement with the specification is C15's verdict; here only a diagnostic
    chk.notes["language_mismatches (diagnostic, C15's verdict)"] = len(res["language"])
    execs = fuzz(chk, 20 if quick else 600)
    chk.cov["evaluations"] += execs
    chk.cov["distinct_nontrivial"] = res["inputs"]
    for s in res["samples"]:
        chk.sample(s)
    chk.notes["by_verdict"] = res["byacc"]
    chk.notes["fuzz_executions"] = execs
    chk.notes["rule"] = ("every sequence of <= %d tokens over %d tokens (with and without separating blanks) + %d hand-written edge inputs through "
                         "grammar.Parse, CreateEvaluator, CreateFilter (+ Evaluate / Execute / ExpressionDump on what they return); plus %d fuzzing "
                         "executions; non-trivial = distinct enumerated inputs" % (world["maxtok"], len(toks), len(seeds), execs))
    return chk.finish()


if __name__ == "__main__":
    vlib.main(main, "C10")
