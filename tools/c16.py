#!/usr/bin/env python3
"""C16 - print-then-parse round trip: precedence, grouping, layout and literal fidelity.

Expression trees (systematic small trees over every operator / binding mode + random trees) are rendered in every
combination of the style dimensions: whitespace (none where optional / single blanks / tabs and newlines), redundant
parentheses (0..2 levels), literal style (bare / double-quoted / back-quoted / automatic), selector spelling (dotted /
["x"] / [`x`] / JSON Pointer) and in / contains.  TLC (spec/PegCases.tla on the frozen grammar) reads every rendering
back and reports whether the specification yields the tree it was rendered from (rt); the harness parses the same text
with the real parser and compares with that tree.  Literal fidelity: for every string of length <= k over a 17-symbol
alphabet (quotes, backslash, slash, tilde, blank, newline, CR, tab, NUL, non-ASCII ...) and every style able to spell
it, the literal's Raw must be the string and `X == <literal>` must be true of X = s."""
import itertools, json, os, random, sys
sys.path.insert(0, os.path.dirname(os.path.abspath(__file__)))
import vlib, pegrun
from vlib import match
from pegrun import coll, b, n


def small_trees():
    m = lambda i: match(["s%d" % i], "==", str(i))
    out = [m(1), n(m(1)), b("and", m(1), m(2)), b("or", m(1), m(2))]
    for o1 in ("and", "or"):
        for o2 in ("and", "or"):
            out.append(b(o1, b(o2, m(1), m(2)), m(3)))        # left-nested: needs parentheses
            out.append(b(o1, m(1), b(o2, m(2), m(3))))        # right-nested: the natural chain
        out.append(n(b(o1, m(1), m(2))))
        out.append(b(o1, n(m(1)), m(2)))
        out.append(b(o1, m(1), n(m(2))))
        out.append(b(o1, n(b("or", m(1), m(2))), n(n_free(m(3)))))
    for op in pegrun.OPS:
        out.append(match(["a", "b"], op, "" if op in ("empty", "notempty") else "v"))
    for mode, n1, n2 in (("default", "v", ""), ("index", "k", ""), ("value", "", "v"), ("both", "k", "v")):
        for q in ("any", "all"):
            out.append(coll(q, ["xs"], mode, n1, n2, m(1)))
    out.append(b("or", m(1), coll("any", ["xs"], "default", "v", "", b("and", m(2), n(m(3))))))
    out.append(b("and", coll("all", ["xs", "ys"], "both", "k", "v", coll("any", ["v"], "default", "w", "", m(1))), m(2)))
    out.append(n(coll("any", ["xs"], "default", "v", "", m(1))))
    out.append(b("and", b("and", b("and", m(1), m(2)), m(3)), m(4)))
    out.append(b("or", m(1), b("or", m(2), b("or", m(3), m(4)))))
    out.append(match(["x"], "==", "1.5"))
    out.append(match(["x"], "in", "-3"))
    out.append(match(["x"], "==", "v1.2"))
    out.append(match(["x"], "!=", "rack/12.4"))
    out.append(match(["x"], "==", "foo.bar"))
    out.append(match(["x"], "==", "/usr/bin"))
    out.append(match(["x", "y z", "0"], "matches", "^a b$"))
    return out


def n_free(e):
    return e


STYLES = [{"sel": s, "lit": l, "ws": w, "paren": p, "cont": c, "dneg": dn}
          for s in ("auto", "bracket", "backtick", "pointer") for l in ("auto", "dq", "raw", "bare") for w in ("", "wide", "tight") for p in (0, 1, 2) for c in (False, True)
          for dn in (0, 1, 2) if not (dn and p == 2)]

KEYWORDS = {"not", "and", "or", "in", "is", "any", "all", "as", "contains", "matches", "empty"}
import re
IDENT = re.compile(r"^[a-zA-Z][a-zA-Z0-9_/]*$")
DIGITS = re.compile(r"^[0-9]+$")
NUM = re.compile(r"^-?(0|[1-9][0-9]*)(\.[0-9]+)?$")
BAREWORD = re.compile(r"^[a-zA-Z][a-zA-Z0-9_/]*(\.([a-zA-Z][a-zA-Z0-9_/]*|[0-9]+))*$")
SEG = re.compile(r"^[A-Za-z0-9\-_.~:|]+$")


def dq(s):
    if '"' in s:
        return []
    out = ['"']
    for ch in s:
        out += {"\\": ["\\", "\\"], "\n": ["\\", "n"], "\t": ["\\", "t"], "\r": ["\\", "r"]}.get(ch, [ch])
    return out + ['"']


def raw(s):
    return [] if ("`" in s or "\r" in s) else ["`"] + list(s) + ["`"]


def lit_table(vals):
    t = {}
    for v in vals:
        bare = list(v) if NUM.match(v) or (BAREWORD.match(v) and not (set(v.split(".")) & KEYWORDS)) else []
        t[v] = {"dq": dq(v), "raw": raw(v), "bare": bare}
    return t


def part_table(parts):
    t = {}
    for p in parts:
        esc = p.replace("~", "~0").replace("/", "~1")
        t[p] = {"ident": list(p) if IDENT.match(p) and p not in KEYWORDS else [], "digits": list(p) if DIGITS.match(p) else [],
                "br": dq(p), "bt": raw(p), "ptr": list(esc) if SEG.match(esc) else []}
    return t


def lang_world(quick):
    """universe of the model-level round trip (spec/Lang.tla): TLC builds every tree over these atoms and shells"""
    m = match
    atoms = [m(["a"], "==", "1"), m(["foo", "bar"], "!=", "x y"), m(["a", "0", "b c"], "in", "v1.2"), m(["m", "a/b"], "notin", "-3"),
             m(["x"], "empty"), m(["x", "007"], "notempty"), m(["s"], "matches", "^a\\.b$"), m(["s", "a~b"], "notmatches", "1.5"),
             m(["k"], "==", "/usr/bin"), m(["v", "id"], "==", "hello world")]
    atoms = [atoms[1], atoms[2], atoms[4]] if quick else [atoms[i] for i in (1, 2, 4, 6)]
    colls = [{"op": "any", "sel": {"ty": "bexpr", "path": ["xs"]}, "mode": "default", "n1": "v", "n2": ""},
             {"op": "all", "sel": {"ty": "bexpr", "path": ["m", "ys"]}, "mode": "both", "n1": "k", "n2": "v"},
             {"op": "any", "sel": {"ty": "bexpr", "path": ["xs", "0"]}, "mode": "index", "n1": "k", "n2": ""},
             {"op": "all", "sel": {"ty": "bexpr", "path": ["xs"]}, "mode": "value", "n1": "", "n2": "v"}]
    colls = colls[1:2] if quick else colls[1:3]
    for a in atoms:
        for k in ("mode", "n1", "n2"):
            a.pop(k, None)
        if not a["hv"]:
            a["val"] = ""
    vals = {a["val"] for a in atoms if a["hv"]}
    parts = {p for a in atoms for p in a["sel"]["path"]} | {p for c in colls for p in c["sel"]["path"]}
    dims = {"ws": ["one", "tight", "wide"], "paren": [0, 1, 2], "lit": ["dq", "raw", "bare"], "sel": ["dot", "br", "bt", "ptr"], "cont": [False, True], "dneg": [0, 1, 2]}
    base = {"ws": "one", "paren": 0, "lit": "dq", "sel": "dot", "cont": False, "dneg": 0}
    styles = [dict(base)]
    for k, vs in dims.items():
        for v in vs[1:]:
            styles.append(dict(base, **{k: v}))
    if not quick:
        allst = [{"ws": w, "paren": p, "lit": l, "sel": s_, "cont": c, "dneg": d} for w in dims["ws"] for p in dims["paren"] for l in dims["lit"]
                 for s_ in dims["sel"] for c in dims["cont"] for d in dims["dneg"] if not (d and p == 2)]
        styles += random.Random(7).sample(allst, 8)
    else:
        styles += [{"ws": "tight", "paren": 1, "lit": "raw", "sel": "ptr", "cont": True, "dneg": 0}, {"ws": "wide", "paren": 0, "lit": "bare", "sel": "br", "cont": True, "dneg": 2},
                   {"ws": "tight", "paren": 2, "lit": "dq", "sel": "bt", "cont": False, "dneg": 0}]
    g = pegrun.load_grammar()
    return {"grammar": g, "atoms": atoms, "colls": colls, "maxn": 3, "parenbudget": 2 if quick else 4, "styles": styles, "lits": lit_table(vals), "parts": part_table(parts)}


ALPHA = ["a", "0", "/", "~", "\\", '"', "`", " ", "\n", "\r", "\t", "<0>", "<L>", ".", "-", "_", "1"]


def main():
    chk = vlib.Check("C16")
    rnd = random.Random(chk.seed)
    quick = chk.tier == "quick"
    wd = vlib.sub("c16")
    trees = small_trees() + [pegrun.random_tree(rnd, rnd.randint(1, 3)) for _ in range(40 if quick else 600)]
    styles = STYLES if not quick else ([s for s in STYLES if sum([s["sel"] != "auto", s["lit"] != "auto", s["ws"] != "", s["paren"] != 0, s["cont"], s["dneg"] != 0]) <= 1]
                                       + rnd.sample(STYLES, 24))
    with open(os.path.join(wd, "trees.json"), "w") as fh:
        json.dump(trees, fh)
    with open(os.path.join(wd, "styles.json"), "w") as fh:
        json.dump(styles, fh)
    rows = json.loads(vlib.harness(["render", "-exprs", os.path.join(wd, "trees.json"), "-styles", os.path.join(wd, "styles.json")]).stdout)
    cap = 4000 if quick else 6000
    seeds, expect, meta = [], [], []
    for r in rows:
        s = pegrun.syms(r["text"])
        t = pegrun.peg_tree(trees[r["i"]])
        if s is None or t is None or not (0 < r["steps"] <= cap):
            continue
        if styles[r["style"]]["sel"] == "pointer":
            t = json.loads(json.dumps(t).replace('"ty": "bexpr"', '"ty": "ptr"'))
        seeds.append(s)
        expect.append(t)
        meta.append((r["i"], r["style"], r["text"]))
    keep = 800 if quick else 2000
    if len(seeds) > keep:
        idx = sorted(rnd.sample(range(len(seeds)), keep))
        seeds, expect, meta = [seeds[i] for i in idx], [expect[i] for i in idx], [meta[i] for i in idx]
    world = pegrun.peg_world([], 0, 3, seeds, expect=expect)
    with open(os.path.join(wd, "expect.json"), "w") as fh:
        json.dump(expect, fh)
    # run_peg with the expectation file
    tag = "c16"
    cfg = 'SPECIFICATION Spec\nCONSTANT WorldFile = "world.json"\nCHECK_DEADLOCK FALSE\n'
    r = vlib.run_tlc("PegCases", cfg, wd, files={"world.json": world}, timeout=3000)
    chk.add_tlc(r)
    with open(os.path.join(wd, "cases.ndjson"), "w") as fh:
        for c in r.cases:
            fh.write(json.dumps(c) + "\n")
    vlib.harness(["parse", "-cases", os.path.join(wd, "cases.ndjson"), "-out", os.path.join(wd, "parse.json"), "-shapes=false", "-expect", os.path.join(wd, "expect.json")])
    res = json.load(open(os.path.join(wd, "parse.json")))
    for k in ("round", "specround", "samples"):
        res[k] = res.get(k) or []
    vlib.log("c16: %d renderings of %d trees in %d styles: %d real round-trip failures, %d specification round-trip failures" % (
        len(seeds), len(trees), len(styles), len(res["round"]), len(res["specround"])))
    chk.cov["traces_validated_against_impl"] += res["inputs"]
    chk.cov["evaluations"] = res["inputs"]
    if res["specround"]:
        raise vlib.Infra("the reference grammar does not read %d renderings back as the trees they were rendered from (renderer or reference "
                         "problem), e.g. %s" % (len(res["specround"]), json.dumps(res["specround"][0])[:500]))
    for m in res["round"]:
        chk.violation({"what": m["what"], "text": m["input"], "tree": m["spec"], "parsed": m["impl"].get("ast") if isinstance(m["impl"], dict) else m["impl"],
                       "verdict": m["impl"].get("acc") if isinstance(m["impl"], dict) else ""})
    # the round trip as a property of the specification: TLC builds every tree over a pool and renders it itself (Lang.tla)
    lw = lang_world(quick)
    lwd = vlib.sub("c16-lang")
    r = vlib.run_tlc("Lang", cfg, lwd, files={"world.json": lw}, timeout=3000)
    chk.add_tlc(r)
    with open(os.path.join(lwd, "cases.ndjson"), "w") as fh:
        for c in r.cases:
            fh.write(json.dumps(c) + "\n")
    vlib.harness(["parse", "-cases", os.path.join(lwd, "cases.ndjson"), "-out", os.path.join(lwd, "parse.json"), "-shapes=false"])
    lres = json.load(open(os.path.join(lwd, "parse.json")))
    vlib.log("c16-lang: TLC rendered %d (tree, style) pairs in %d styles and read each back; real round-trip failures: %d" % (
        lres["inputs"], len(lw["styles"]), len(lres.get("round") or [])))
    chk.cov["traces_validated_against_impl"] += lres["inputs"]
    chk.cov["evaluations"] += lres["inputs"]
    for m in lres.get("round") or []:
        chk.violation({"what": m["what"], "text": m["input"], "tree": m["spec"], "parsed": m["impl"].get("ast") if isinstance(m["impl"], dict) else m["impl"],
                       "verdict": m["impl"].get("acc") if isinstance(m["impl"], dict) else ""})
    # literal fidelity
    k = 2 if quick else 3
    strs = [[]]
    for ln in range(1, k + 1):
        strs += [list(t) for t in itertools.product(ALPHA, repeat=ln)]
    strs += [list("/usr/bin"), list("/a~1b/c"), list("a\"b`c"), list("0x10"), list("1e5"), list(" leading"), list("trailing "), list("tab\there"), list("x.y.z"), list("v1.2"), ["<L>", "<N>", "<S>"]]
    with open(os.path.join(wd, "strings.json"), "w") as fh:
        json.dump(strs, fh)
    fid = json.loads(vlib.harness(["fidelity", "-strings", os.path.join(wd, "strings.json")]).stdout)
    vlib.log("c16: literal fidelity: %d strings, %d spellings, %d failures" % (fid["strings"], fid["spellings"], len(fid["bad"])))
    chk.cov["evaluations"] += fid["spellings"]
    for m in fid["bad"]:
        chk.violation({"what": "literal fidelity: " + m["what"], "s": m["s"], "style": m["style"], "text": m["text"], "raw": m["raw"]})
    chk.cov["distinct_nontrivial"] = res["inputs"] + fid["spellings"]
    for s in res["samples"][:3]:
        chk.sample(s)
    chk.sample({"tree": trees[5], "rendering": meta[5][2] if len(meta) > 5 else ""})
    chk.notes["specification_round_trip_failures"] = len(res["specround"])
    chk.notes["rule"] = ("%d trees (systematic: every operator, binding mode, left/right nesting of and/or, not over and/or, quantifiers inside "
                         "connectives and each other; + random trees) x %d style profiles (4 selector spellings x 4 literal styles x 3 layouts x 3 "
                         "parenthesis levels x in/contains), renderings bounded to %d parser steps; all strings of length <= %d over %d symbols x "
                         "{double-quoted, back-quoted, bare number, bare word}; non-trivial = renderings parsed + literal spellings evaluated"
                         % (len(trees), len(styles), cap, k, len(ALPHA)))
    return chk.finish()


if __name__ == "__main__":
    vlib.main(main, "C16")
