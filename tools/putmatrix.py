#!/usr/bin/env python3
"""Writes Appendix F (output of tools/mkmatrix.py <logs>) at the end of DESIGN.md, replacing an earlier Appendix F."""
import os, re, subprocess, sys
V = os.path.dirname(os.path.dirname(os.path.abspath(__file__)))
txt = subprocess.run([sys.executable, os.path.join(V, "tools", "mkmatrix.py")] + sys.argv[1:], capture_output=True, text=True, check=True).stdout
p = os.path.join(V, "DESIGN.md")
s = open(p).read()
i = s.find("\n## Appendix F")
if i >= 0:
    s = s[:i].rstrip("\n") + "\n"
s = s.rstrip("\n") + "\n\n\n" + txt
open(p, "w").write(s)
print(txt.splitlines()[-2])
