#!/usr/bin/env python3
"""Bootstrap of spec/grammar_frozen.json: the bexpr grammar as data for spec/Peg.tla.

Run ONCE on the pinned grammar (and again only together with a deliberate, reviewed change of the reference language);
the output is committed and from then on is the reference the real parser is compared with - checks never regenerate
it from the tree under test.  Each code block is replaced by the name of its meaning (SEM), implemented in Peg.tla."""
import json, os, sys, unicodedata
sys.path.insert(0, os.path.dirname(os.path.abspath(__file__)))
import peg2json

SEM = {
 "onInput2": "pass:expr", "onInput17": "pass:expr", "onOrExpression2": "bin:or", "onOrExpression11": "pass:expr", "onOrExpression14": "pass:expr",
 "onAndExpression2": "bin:and", "onAndExpression11": "pass:expr", "onNotExpression2": "not", "onNotExpression8": "pass:expr",
 "onCollectionExpression1": "coll", "onCollectionIdentifiers2": "bind:both", "onCollectionIdentifiers13": "bind:index",
 "onCollectionIdentifiers23": "bind:value", "onCollectionIdentifiers33": "bind:default", "onCollectionOpAny1": "const:any", "onCollectionOpAll1": "const:all",
 "onParenthesizedExpression2": "pass:expr", "onParenthesizedExpression12": "pass:expr", "onParenthesizedExpression24": "err",
 "onMatchSelectorOpValue1": "match3", "onMatchSelectorOp1": "match2", "onMatchValueOpSelector2": "match3", "onMatchValueOpSelector20": "err",
 "onMatchEqual1": "const:==", "onMatchNotEqual1": "const:!=", "onMatchIsEmpty1": "const:empty", "onMatchIsNotEmpty1": "const:notempty",
 "onMatchIn1": "const:in", "onMatchNotIn1": "const:notin", "onMatchContains1": "const:in", "onMatchNotContains1": "const:notin",
 "onMatchMatches1": "const:matches", "onMatchNotMatches1": "const:notmatches", "onSelector2": "sel:bexpr", "onSelector9": "sel:ptr",
 "onJsonPointerSegment1": "text1", "onIdentifier1": "text", "onSelectorOrIndex2": "pass:ident", "onSelectorOrIndex7": "pass:expr",
 "onSelectorOrIndex10": "text1", "onIndexExpression2": "pass:lit", "onIndexExpression18": "err", "onIndexExpression28": "err",
 "onValue2": "value:sel", "onValue5": "value:n", "onValue8": "value:s", "onNumberLiteral2": "text", "onNumberLiteral15": "err",
 "onStringLiteral2": "unquote", "onStringLiteral25": "err",
}

# the model alphabet: printable ASCII without < and >, tab / newline / carriage return, and the class symbols
ASCII = [chr(c) for c in range(32, 127) if chr(c) not in "<>"] + ["\t", "\n", "\r"]
SPECIAL = {"<0>": 0, "<L>": ord("é"), "<N>": ord("٣"), "<S>": ord("☃")}   # representatives; "<B>" (invalid byte) matches no class


def in_class(n, cp):
    hit = cp in n["chars"] or any(n["ranges"][i] <= cp <= n["ranges"][i + 1] for i in range(0, len(n["ranges"]), 2)) \
        or any(unicodedata.category(chr(cp)).startswith(c) for c in n["classes"])
    return hit != n["inv"]


def conv(n):
    t = n["t"]
    out = {"t": t, "es": [], "label": "", "name": "", "chars": [], "syms": [], "sem": ""}
    if t in ("choice", "seq"):
        out["es"] = [conv(c) for c in n["es"]]
    elif t in ("act", "lab", "and", "not", "opt", "star", "plus"):
        out["es"] = [conv(n["e"])]
        if t == "act":
            out["sem"] = SEM[n["name"]]
        if t == "lab":
            out["label"] = n["label"]
    elif t == "ref":
        out["name"] = n["name"]
    elif t == "lit":
        assert not n["ic"]
        out["chars"] = list(n["val"])
    elif t == "cls":
        assert not n["ic"]
        out["syms"] = [c for c in ASCII if in_class(n, ord(c))] + [s for s, cp in SPECIAL.items() if in_class(n, cp)]
        out["name"] = n["val"]
    elif t == "andcode":
        out["sem"] = SEM[n["name"]]
        assert out["sem"] == "err"
    elif t != "any":
        raise SystemExit("node type %s is not used by the bexpr grammar" % t)
    return out


def main():
    g = peg2json.read(sys.argv[1])
    frozen = {"source": "transcription of grammar/grammar.peg (hashicorp/go-bexpr, pinned commit + fix: commits)",
              "rules": [{"name": r["name"], "display": r["display"], "expr": conv(r["expr"])} for r in g["rules"]]}
    json.dump(frozen, open(sys.argv[2], "w"), indent=0)
    print(len(frozen["rules"]), "rules")


main()
