#!/usr/bin/env python3
"""Reader of pigeon's grammar meta-syntax (the subset grammar.peg uses, plus the operators pigeon offers that it
does not use, so that an edit introducing them is still read).  Written for this purpose; it shares no code with pigeon.

Output (JSON): {"init": code, "rules": [{"name", "display", "pos", "expr"}]} with expression nodes
  {"t": "choice", "es": [...]} {"t": "seq", "es": [...]} {"t": "act", "e": ..., "code": str, "name": "on<Rule><n>"}
  {"t": "lab", "label": str, "e": ...} {"t": "ref", "name": str} {"t": "lit", "val": str, "ic": bool}
  {"t": "cls", "val": str, "chars": [int], "ranges": [int], "classes": [str], "ic": bool, "inv": bool} {"t": "any"}
  {"t": "and"|"not"|"opt"|"star"|"plus", "e": ...} {"t": "andcode"|"notcode", "code": str, "name": ...}
Action / predicate names follow pigeon's numbering: on<RuleName><index of the node in a pre-order walk of the rule,
the rule's top expression being 1>.  Every node carries "pos": [line, col, offset] (1-based line/col, 0-based offset)."""
import json
import sys


class PegError(Exception):
    pass


class Reader:
    def __init__(self, text):
        self.s = text
        self.i = 0

    # ---- positions
    def pos(self, i=None):
        i = self.i if i is None else i
        line = self.s.count("\n", 0, i) + 1
        col = i - (self.s.rfind("\n", 0, i) + 1) + 1
        # pigeon counts columns in runes and offsets in bytes
        off = len(self.s[:i].encode("utf-8"))
        return [line, col, off]

    def err(self, msg):
        l, c, _ = self.pos()
        raise PegError("grammar.peg:%d:%d: %s" % (l, c, msg))

    # ---- lexical
    def ws(self):
        while self.i < len(self.s):
            c = self.s[self.i]
            if c in " \t\r\n":
                self.i += 1
            elif self.s.startswith("//", self.i):
                j = self.s.find("\n", self.i)
                self.i = len(self.s) if j < 0 else j
            elif self.s.startswith("/*", self.i):
                j = self.s.find("*/", self.i)
                if j < 0:
                    self.err("unterminated comment")
                self.i = j + 2
            else:
                break

    def peek(self, t):
        return self.s.startswith(t, self.i)

    def ident(self):
        j = self.i
        if j < len(self.s) and (self.s[j].isalpha() or self.s[j] == "_"):
            j += 1
            while j < len(self.s) and (self.s[j].isalnum() or self.s[j] == "_"):
                j += 1
            name = self.s[self.i:j]
            self.i = j
            return name
        return None

    def code_block(self):
        """a Go code block { ... }: braces are balanced outside Go string / rune / comment tokens"""
        if not self.peek("{"):
            self.err("code block expected")
        start = self.i
        depth = 0
        i = self.i
        s = self.s
        while i < len(s):
            c = s[i]
            if c == "{":
                depth += 1
                i += 1
            elif c == "}":
                depth -= 1
                i += 1
                if depth == 0:
                    self.i = i
                    return s[start + 1:i - 1]
            elif c == '"':
                i += 1
                while i < len(s) and s[i] != '"':
                    if s[i] == "\\":
                        i += 1
                    if s[i] == "\n":
                        self.err("newline in string inside a code block")
                    i += 1
                i += 1
            elif c == "`":
                j = s.find("`", i + 1)
                if j < 0:
                    self.err("unterminated raw string in code block")
                i = j + 1
            elif c == "'":
                i += 1
                while i < len(s) and s[i] != "'":
                    if s[i] == "\\":
                        i += 1
                    i += 1
                i += 1
            elif s.startswith("//", i):
                j = s.find("\n", i)
                i = len(s) if j < 0 else j
            elif s.startswith("/*", i):
                j = s.find("*/", i)
                if j < 0:
                    self.err("unterminated comment in code block")
                i = j + 2
            else:
                i += 1
        self.err("unterminated code block")

    ESC = {"a": 7, "b": 8, "f": 12, "n": 10, "r": 13, "t": 9, "v": 11, "\\": 92}

    def escape(self, quote_chars):
        """after a backslash: returns the code point"""
        s = self.s
        c = s[self.i]
        if c in self.ESC:
            self.i += 1
            return self.ESC[c]
        if c in quote_chars:
            self.i += 1
            return ord(c)
        if c == "x":
            v = int(s[self.i + 1:self.i + 3], 16)
            self.i += 3
            return v
        if c == "u":
            v = int(s[self.i + 1:self.i + 5], 16)
            self.i += 5
            return v
        if c == "U":
            v = int(s[self.i + 1:self.i + 9], 16)
            self.i += 9
            return v
        if c in "01234567":
            v = int(s[self.i:self.i + 3], 8)
            self.i += 3
            return v
        self.err("unknown escape \\%s" % c)

    def literal(self):
        q = self.s[self.i]
        start = self.i
        self.i += 1
        out = []
        if q == "`":
            j = self.s.find("`", self.i)
            if j < 0:
                self.err("unterminated raw literal")
            out = [ord(c) for c in self.s[self.i:j]]
            self.i = j + 1
        else:
            while True:
                if self.i >= len(self.s) or self.s[self.i] == "\n":
                    self.err("unterminated literal")
                c = self.s[self.i]
                if c == q:
                    self.i += 1
                    break
                if c == "\\":
                    self.i += 1
                    out.append(self.escape(q))
                else:
                    out.append(ord(c))
                    self.i += 1
        ic = False
        if self.peek("i") and not (self.i + 1 < len(self.s) and (self.s[self.i + 1].isalnum() or self.s[self.i + 1] == "_")):
            ic = True
            self.i += 1
        val = "".join(chr(c) for c in out)
        if ic:
            val = val.lower()
        want = json.dumps(val, ensure_ascii=False) + ("i" if ic else "")      # pigeon: strconv.Quote(val) [+ "i"]
        return {"t": "lit", "val": val, "ic": ic, "src": self.s[start:self.i], "want": want}

    def charclass(self):
        start = self.i
        self.i += 1
        inv = False
        if self.peek("^"):
            inv = True
            self.i += 1
        chars, ranges, classes = [], [], []
        items = []  # ("c", cp) or ("p", class)
        while True:
            if self.i >= len(self.s) or self.s[self.i] == "\n":
                self.err("unterminated character class")
            c = self.s[self.i]
            if c == "]":
                self.i += 1
                break
            if c == "\\":
                self.i += 1
                n = self.s[self.i]
                if n == "p":
                    self.i += 1
                    if self.s[self.i] == "{":
                        j = self.s.find("}", self.i)
                        items.append(("p", self.s[self.i + 1:j]))
                        self.i = j + 1
                    else:
                        items.append(("p", self.s[self.i]))
                        self.i += 1
                    continue
                if n in "]-^":
                    self.i += 1
                    items.append(("c", ord(n)))
                    continue
                items.append(("c", self.escape("]")))
            else:
                items.append(("c", ord(c)))
                self.i += 1
        ic = False
        if self.peek("i") and not (self.i + 1 < len(self.s) and (self.s[self.i + 1].isalnum() or self.s[self.i + 1] == "_")):
            ic = True
            self.i += 1
        raw = self.s[start:self.i]
        # ranges are c '-' c with the dash being a literal '-' item between two character items
        k = 0
        while k < len(items):
            kind, v = items[k]
            if kind == "p":
                classes.append(v)
                k += 1
            elif k + 2 < len(items) and items[k + 1] == ("c", 45) and items[k + 2][0] == "c" and self._dash_is_range(raw, items, k):
                lo, hi = v, items[k + 2][1]
                if ic:
                    lo, hi = ord(chr(lo).lower()), ord(chr(hi).lower())
                ranges += [lo, hi]
                k += 3
            else:
                chars.append(ord(chr(v).lower()) if ic else v)
                k += 1
        return {"t": "cls", "val": raw, "chars": chars, "ranges": ranges, "classes": classes, "ic": ic, "inv": inv}

    def _dash_is_range(self, raw, items, k):
        # pigeon's class grammar: ClassCharRange <- ClassChar '-' ClassChar, tried before a single ClassChar, where
        # ClassChar excludes an unescaped ']' only; "\pN-_" is a class followed by the characters '-' and '_'
        return True

    # ---- expressions
    def expression(self):
        return self.choice()

    def choice(self):
        p = self.pos()
        alts = [self.action()]
        while True:
            save = self.i
            self.ws()
            if self.peek("/") and not self.peek("//") and not self.peek("/*"):
                self.i += 1
                self.ws()
                alts.append(self.action())
            else:
                self.i = save
                break
        if len(alts) == 1:
            return alts[0]
        return {"t": "choice", "es": alts, "pos": p}

    def action(self):
        p = self.pos()
        e = self.seq()
        save = self.i
        self.ws()
        if self.peek("{"):
            code = self.code_block()
            return {"t": "act", "e": e, "code": code, "pos": p}
        self.i = save
        return e

    def at_rule_start(self):
        """IdentifierName __ (StringLiteral __)? '<-'  - the next rule begins here, not a rule reference"""
        save = self.i
        try:
            if self.ident() is None:
                return False
            self.ws()
            if self.i < len(self.s) and self.s[self.i] in "\"'`":
                self.literal()
                self.ws()
            return self.peek("<-") or self.peek("←") or self.peek("=") or self.peek("⟵")
        finally:
            self.i = save

    def seq(self):
        p = self.pos()
        items = [self.labeled()]
        while True:
            save = self.i
            self.ws()
            if self.i >= len(self.s) or self.s[self.i] in "/){" and not self.peek("//") or self.s[self.i] == ";" or self.at_rule_start():
                self.i = save
                break
            nxt = self.try_labeled()
            if nxt is None:
                self.i = save
                break
            items.append(nxt)
        if len(items) == 1:
            return items[0]
        return {"t": "seq", "es": items, "pos": p}

    def try_labeled(self):
        c = self.s[self.i]
        if c.isalpha() or c == "_" or c in "\"'`[.(&!":
            return self.labeled()
        return None

    def labeled(self):
        p = self.pos()
        save = self.i
        name = self.ident()
        if name is not None:
            self.ws()
            if self.peek(":"):
                self.i += 1
                self.ws()
                e = self.prefixed()
                return {"t": "lab", "label": name, "e": e, "pos": p}
        self.i = save
        return self.prefixed()

    def prefixed(self):
        p = self.pos()
        if self.peek("&") or self.peek("!"):
            op = self.s[self.i]
            self.i += 1
            self.ws()
            if self.peek("{"):
                code = self.code_block()
                return {"t": "andcode" if op == "&" else "notcode", "code": code, "pos": p}
            e = self.suffixed()
            return {"t": "and" if op == "&" else "not", "e": e, "pos": p}
        return self.suffixed()

    def suffixed(self):
        p = self.pos()
        e = self.primary()
        save = self.i
        self.ws()
        if self.i < len(self.s) and self.s[self.i] in "?*+":
            op = self.s[self.i]
            self.i += 1
            return {"t": {"?": "opt", "*": "star", "+": "plus"}[op], "e": e, "pos": p}
        self.i = save
        return e

    def primary(self):
        p = self.pos()
        c = self.s[self.i]
        if c in "\"'`":
            n = self.literal()
            n["pos"] = p
            return n
        if c == "[":
            n = self.charclass()
            n["pos"] = p
            return n
        if c == ".":
            self.i += 1
            return {"t": "any", "pos": p}
        if c == "(":
            self.i += 1
            self.ws()
            e = self.expression()
            self.ws()
            if not self.peek(")"):
                self.err("')' expected")
            self.i += 1
            return e
        name = self.ident()
        if name is None:
            self.err("expression expected")
        return {"t": "ref", "name": name, "pos": p}

    def grammar(self):
        self.ws()
        init = None
        if self.peek("{"):
            init = self.code_block()
        rules = []
        while True:
            self.ws()
            if self.i >= len(self.s):
                break
            p = self.pos()
            name = self.ident()
            if name is None:
                self.err("rule name expected")
            self.ws()
            display = ""
            if self.s[self.i] in "\"'`":
                display = self.literal()["src"]
                self.ws()
            if self.peek("<-"):
                self.i += 2
            elif self.peek("←") or self.peek("="):
                self.i += 1
            else:
                self.err("'<-' expected")
            self.ws()
            e = self.expression()
            rules.append({"name": name, "display": display, "pos": p, "expr": e})
            self.ws()
            if self.peek(";"):
                self.i += 1
        return {"init": init, "rules": rules}


def number(rules):
    """pigeon names the code of node n of rule R on<R><n>, n = pre-order index, the rule's expression being 1"""
    for r in rules:
        k = [0]

        def walk(e):
            k[0] += 1
            if e["t"] in ("act", "andcode", "notcode"):
                e["name"] = "on%s%d" % (r["name"], k[0])
            if "es" in e:
                for c in e["es"]:
                    walk(c)
            if "e" in e:
                walk(e["e"])
        walk(r["expr"])


def read(path):
    g = Reader(open(path, encoding="utf-8").read()).grammar()
    number(g["rules"])
    return g


if __name__ == "__main__":
    json.dump(read(sys.argv[1]), sys.stdout, indent=1)
