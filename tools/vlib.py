"""Shared machinery of the go-bexpr checks: scratch space, harness build, TLC runs,
case-line parsing, tables, verdicts and evidence."""
import atexit
import hashlib
import json
import os
import re
import shutil
import subprocess
import sys
import tempfile
import time

VERIF = os.path.dirname(os.path.dirname(os.path.abspath(__file__)))
REPO = os.environ.get("VERIF_REPO", "/repo")
SPEC = os.path.join(VERIF, "spec")
JAR = "/opt/veriftools/tla/tla2tools.jar:/opt/veriftools/tla/CommunityModules-deps.jar"

GOENV = dict(os.environ, GOFLAGS="-mod=mod", GOPROXY="off", GOSUMDB="off", GOTOOLCHAIN="local")


class Infra(Exception):
    """something went wrong with the machinery itself (exit 2, never a violation)"""


_scratch = None


def scratch():
    global _scratch
    if _scratch is None:
        base = os.environ.get("VERIF_SCRATCH") or tempfile.gettempdir()
        _scratch = tempfile.mkdtemp(prefix="verif-", dir=base)
        if not os.environ.get("VERIF_KEEP"):
            atexit.register(lambda: shutil.rmtree(_scratch, ignore_errors=True))
    return _scratch


def sub(name):
    d = os.path.join(scratch(), name)
    os.makedirs(d, exist_ok=True)
    return d


def log(*a):
    print(*a, file=sys.stderr, flush=True)


# ---------------------------------------------------------------------------------------
# harness

_harness = {}


def build_harness(race=False, tags="verif"):
    """build the Go harness against the go-bexpr tree under test (its current working tree)"""
    key = (race, tags)
    if key in _harness:
        return _harness[key]
    src = sub("harness-src")
    if not os.path.exists(os.path.join(src, "go.mod")):
        shutil.copytree(os.path.join(VERIF, "harness"), src, dirs_exist_ok=True)
        gm = open(os.path.join(src, "go.mod")).read()
        gm = re.sub(r"replace github.com/hashicorp/go-bexpr => .*", "replace github.com/hashicorp/go-bexpr => " + REPO, gm)
        open(os.path.join(src, "go.mod"), "w").write(gm)
        shutil.copy(os.path.join(REPO, "go.sum"), os.path.join(src, "go.sum"))
    out = os.path.join(scratch(), "harness" + ("-race" if race else "") + ("-" + tags if tags != "verif" else ""))
    cmd = ["go", "build", "-o", out]
    if tags:
        cmd += ["-tags", tags]
    if race:
        cmd += ["-race"]
    cmd += ["./cmd/harness"]
    t = time.time()
    p = subprocess.run(cmd, cwd=src, env=GOENV, capture_output=True, text=True)
    if p.returncode != 0 and tags and "grammar.VerifStep" in p.stderr:
        # the tree under test has no step hook: build without it (step counts are then not observed; verdicts do not need them)
        log("the parser step hook is missing in %s: building the harness without the verif tag" % REPO)
        cmd = [c for c in cmd if c not in ("-tags", tags)]
        p = subprocess.run(cmd, cwd=src, env=GOENV, capture_output=True, text=True)
    if p.returncode != 0:
        raise Infra("harness does not build against %s:\n%s" % (REPO, p.stderr[-4000:]))
    log("built harness%s in %.1fs" % (" (race)" if race else "", time.time() - t))
    _harness[key] = out
    return out


def harness(args, race=False, stdin=None, timeout=3600, check=True, env=None):
    exe = build_harness(race=race)
    e = dict(GOENV)
    if env:
        e.update(env)
    p = subprocess.run([exe] + args, capture_output=True, text=True, input=stdin, timeout=timeout, env=e)
    if check and p.returncode != 0:
        raise Infra("harness %s failed (%d):\n%s" % (" ".join(args[:3]), p.returncode, p.stderr[-4000:]))
    return p


# ---------------------------------------------------------------------------------------
# TLC

class TLCResult:
    def __init__(self):
        self.out = ""
        self.generated = 0
        self.distinct = 0
        self.depth = 0
        self.ok = False
        self.violation = None
        self.wall = 0.0
        self.cases = []
        self.prints = []


def run_tlc(module, cfg_text, workdir, files=None, workers=None, timeout=1800, simulate=None, depth=None, seed=None,
            extra_java=None, tool_args=None, want_cases=True):
    """run TLC on spec/<module>.tla with the given cfg text in workdir; returns TLCResult.
    Lines printed by PrintT("CASE " \\o json) are collected in .cases (parsed)."""
    os.makedirs(workdir, exist_ok=True)
    # the time limits only bound a runaway model run: generous in the thorough tier, and scalable for slow or loaded machines
    timeout = int(timeout * (2.5 if os.environ.get("VERIF_TIER") == "thorough" else 1.5) * float(os.environ.get("VERIF_TIMEOUT_FACTOR", "1")))
    for f in os.listdir(SPEC):
        if f.endswith(".tla"):
            shutil.copy(os.path.join(SPEC, f), os.path.join(workdir, f))
    for name, content in (files or {}).items():
        with open(os.path.join(workdir, name), "w") as fh:
            fh.write(content if isinstance(content, str) else json.dumps(content))
    with open(os.path.join(workdir, module + ".cfg"), "w") as fh:
        fh.write(cfg_text)
    meta = os.path.join(workdir, "meta-" + module)
    shutil.rmtree(meta, ignore_errors=True)
    if workers is None:
        workers = int(os.environ.get("VERIF_WORKERS", "0")) or min(16, os.cpu_count() or 4)
    jtmp = os.path.join(workdir, "jtmp")            # TLC's own temporary directory: inside the scratch area, removed with it
    os.makedirs(jtmp, exist_ok=True)
    java = ["java", "-XX:+UseParallelGC", "-Xss512m", "-Dfile.encoding=UTF-8", "-Djava.io.tmpdir=" + jtmp]
    if extra_java:
        java += extra_java
    cmd = java + ["-cp", JAR, "tlc2.TLC", "-metadir", meta, "-workers", str(workers), "-config", module + ".cfg"]
    if simulate:
        cmd += ["-simulate", simulate]
        if depth:
            cmd += ["-depth", str(depth)]
    if seed is not None:
        cmd += ["-seed", str(seed)]
    if tool_args:
        cmd += tool_args
    cmd += [module + ".tla"]
    res = TLCResult()
    t = time.time()
    outpath = os.path.join(workdir, module + ".out")
    # Optional cache of TLC's output (only tools/matrix.py sets VERIF_TLC_CACHE, no registered command does): what TLC prints is a
    # function of the specification files, the configuration and the world file, none of which depends on the tree under test
    # unless the world does (then the key differs).
    ckey, cdir = None, os.environ.get("VERIF_TLC_CACHE")
    if cdir and files and not simulate:
        h = hashlib.sha1()
        for f in sorted(os.listdir(SPEC)):
            if f.endswith(".tla"):
                h.update(open(os.path.join(SPEC, f), "rb").read())
        h.update(("|%s|%s|%s|" % (module, cfg_text, tool_args)).encode())
        for name in sorted(files or {}):
            c = (files or {})[name]
            h.update((name + "|" + (c if isinstance(c, str) else json.dumps(c, sort_keys=True))).encode())
        ckey = os.path.join(cdir, h.hexdigest() + ".out")
    if ckey and os.path.exists(ckey):
        shutil.copy(ckey, outpath)
        rc = 0 if "Model checking completed. No error has been found." in open(outpath, errors="replace").read()[-20000:] else 12
        log("TLC %s: output taken from the cache" % module)
    else:
        with open(outpath, "w") as fh:
            try:
                p = subprocess.run(cmd, cwd=workdir, stdout=fh, stderr=subprocess.STDOUT, timeout=timeout,
                                   env=dict(os.environ, JAVA_TOOL_OPTIONS=""))
                rc = p.returncode
            except subprocess.TimeoutExpired:
                subprocess.run(["pkill", "-f", meta], check=False)
                raise Infra("TLC timed out after %ds on %s" % (timeout, module))
        if ckey and rc in (0, 12):
            os.makedirs(cdir, exist_ok=True)
            shutil.copy(outpath, ckey + ".tmp%d" % os.getpid())
            os.replace(ckey + ".tmp%d" % os.getpid(), ckey)
    res.wall = time.time() - t
    shutil.rmtree(meta, ignore_errors=True)
    tail = []
    with open(outpath, errors="replace") as fh:
        for line in fh:
            if want_cases and line.startswith('"CASE '):
                try:
                    res.cases.append(json.loads(json.loads(line)[5:]))
                except Exception as e:  # noqa
                    raise Infra("unparsable CASE line from TLC: %s" % line[:300])
                continue
            if line.startswith('"') or line.startswith("<<"):
                res.prints.append(line.rstrip("\n"))
                continue
            tail.append(line)
            if len(tail) > 400:
                tail = tail[-300:]
            m = re.match(r"(\d+) states generated, (\d+) distinct states found", line)
            if m:
                res.generated, res.distinct = int(m.group(1)), int(m.group(2))
            m = re.match(r"The depth of the complete state graph search is (\d+)", line)
            if m:
                res.depth = int(m.group(1))
            if "Model checking completed. No error has been found." in line:
                res.ok = True
            m = re.match(r"Error: Invariant (\S+) is violated", line)
            if m:
                res.violation = m.group(1)
            if line.startswith("Error: Action property") or line.startswith("Error: Temporal"):
                res.violation = res.violation or line.strip()
    res.out = "".join(tail)
    res.rc = rc
    if simulate and rc == 0:
        res.ok = True
    if not res.ok and res.violation is None:
        raise Infra("TLC failed on %s (rc=%s):\n%s" % (module, rc, res.out[-3000:]))
    log("TLC %s: %d generated / %d distinct states, %d cases, %.1fs%s" % (
        module, res.generated, res.distinct, len(res.cases), res.wall, "" if res.ok else " VIOLATION " + str(res.violation)))
    return res


# ---------------------------------------------------------------------------------------
# tables

import floattab  # noqa: E402

SAFE_PATTERNS_NOTE = "patterns are restricted to syntax on which Python's re and Go's RE2 agree"


def regextab(patterns, strings):
    strings = sorted(set(strings))
    tab = {}
    for p in sorted(set(patterns)):
        try:
            rx = re.compile(p)
        except re.error:
            tab[p] = {"bad": True, "yes": [], "dom": []}
            continue
        tab[p] = {"bad": False, "yes": [s for s in strings if rx.search(s) is not None], "dom": strings}
    return tab


def limbs_to_int(v):
    m = v["m"]
    x = m[0] + (m[1] << 16) + (m[2] << 32) + (m[3] << 48)
    return -x if v["neg"] else x


def bits_to_text(k, bits):
    import struct
    if bits == "nan":
        return "NaN"
    if k == "f64":
        f = struct.unpack(">d", bytes.fromhex(bits))[0]
        return repr(f)
    f = struct.unpack(">f", bytes.fromhex(bits))[0]
    # shortest decimal that round-trips at 32 bits
    for prec in range(1, 18):
        t = "%.*g" % (prec, f)
        if floattab.read(t)["f32"] == bits:
            return t
    return repr(f)


def walk_strings(av, acc):
    """every string a regexp may be applied to: string values, json.Number texts, byte slices, map keys"""
    k = av["k"]
    if k in ("str", "jnum"):
        acc.add(av["v"])
    elif k == "ptr":
        walk_strings(av["to"], acc)
    elif k == "list":
        if "bs" in av:
            acc.add(av["bs"])
        for e in av["v"]:
            walk_strings(e, acc)
    elif k == "map":
        for e in av["v"]:
            walk_strings(e["key"], acc)
            walk_strings(e["val"], acc)
    elif k == "struct":
        for f in av["f"]:
            walk_strings(f["v"], acc)


def own_text(av):
    """spellings of a scalar's own value, to make `== own value` cases"""
    k = av["k"]
    if k == "bool":
        return ["true" if av["v"] else "false"]
    if k in ("int", "uint"):
        return [str(limbs_to_int(av["v"]))]
    if k in ("f32", "f64"):
        t = bits_to_text(k, av["v"])
        return [t] if re.match(r"^-?[0-9.e+-]+$", t) else []
    if k in ("str", "jnum"):
        return [av["v"]] if len(av["v"]) <= 24 else []
    if k == "ptr":
        return own_text(av["to"])
    return []


def key_text(key):
    k = key["k"]
    if k in ("str", "jnum"):
        return key["v"]
    if k in ("int", "uint"):
        return str(limbs_to_int(key["v"]))
    if k == "bool":
        return "true" if key["v"] else "false"
    if k in ("f32", "f64"):
        return bits_to_text(k, key["v"])
    return None


def walk_paths(av, prefix, depth, out, absent=True):
    """structural enumeration of selector paths: (path, node AV or None for deliberately absent ones)"""
    out.append((list(prefix), av))
    if depth == 0:
        return
    k = av["k"]
    if k == "ptr":
        walk_children(av["to"], prefix, depth, out, absent)
    else:
        walk_children(av, prefix, depth, out, absent)


def walk_children(av, prefix, depth, out, absent):
    k = av["k"]
    if k == "ptr":
        return walk_children(av["to"], prefix, depth, out, absent)
    if k == "map":
        for e in av["v"]:
            kt = key_text(e["key"])
            if kt is not None:
                walk_paths(e["val"], prefix + [kt], depth - 1, out, absent)
        if absent:
            out.append((prefix + ["zz"], None))
            out.append((prefix + ["zz", "deeper"], None))
    elif k == "list":
        for i, e in enumerate(av["v"][:4]):
            walk_paths(e, prefix + [str(i)], depth - 1, out, absent)
        if absent:
            out.append((prefix + ["99"], None))
            out.append((prefix + ["x"], None))
    elif k == "struct":
        for f in av["f"]:
            walk_paths(f["v"], prefix + [f["n"]], depth - 1, out, absent)
            for tn, tv in f["tags"].items():
                name = tv.split(",")[0]
                if name and name != "-":
                    out.append((prefix + [name], f["v"]))
        if absent:
            out.append((prefix + ["Zz"], None))
    elif absent and k != "nil":
        out.append((prefix + ["zz"], None))


def path_parts(atoms, colls):
    parts = set()
    def rec(e):
        if e["t"] == "match" or e["t"] == "coll":
            parts.update(e["sel"]["path"])
        for c in ("e", "l", "r"):
            if e.get(c):
                rec(e[c])
    for a in atoms:
        rec(a)
    for c in colls:
        parts.update(c["sel"]["path"])
    return parts


def literals_of(atoms):
    lits = set()
    def rec(e):
        if e["t"] == "match":
            lits.add(e.get("val", ""))
        for c in ("e", "l", "r"):
            if e.get(c):
                rec(e[c])
    for a in atoms:
        rec(a)
    return lits


def match(path, op, val="", ty="bexpr"):
    return {"t": "match", "sel": {"ty": ty, "path": list(path)}, "op": op, "val": val, "hv": op not in ("empty", "notempty"),
            "mode": "", "n1": "", "n2": ""}


def make_world(worlds, docs, cfgs_all, cfgsel, atoms, combo, colls, maxn, extra_strings=(), extra_lits=(), nest=False, want_parts=False, want_classes=False):
    """assemble the world JSON shared by TLC and the harness"""
    strings = set(extra_strings)
    for d in docs:
        walk_strings(d["av"], strings)
    for i in cfgsel:
        if cfgs_all[i]["unknown"]["k"] != "none":
            walk_strings(cfgs_all[i]["unknown"], strings)
        if cfgs_all[i]["hook"] == "nildef":
            strings.add("dflt")                 # the value this hook supplies
        if cfgs_all[i]["hook"] == "label":
            strings |= {"n:" + s for s in strings if len(s) < 8}
    lits = literals_of(atoms) | set(extra_lits)
    parts = path_parts(atoms, colls)
    # json.Number texts are read as floats too
    jn = set()
    def recj(av):
        if av["k"] == "jnum":
            jn.add(av["v"])
        elif av["k"] == "ptr":
            recj(av["to"])
        elif av["k"] == "list":
            [recj(e) for e in av["v"]]
        elif av["k"] == "map":
            [(recj(e["key"]), recj(e["val"])) for e in av["v"]]
        elif av["k"] == "struct":
            [recj(f["v"]) for f in av["f"]]
    for d in docs:
        recj(d["av"])
    ft = floattab.table(lits | parts | jn | {"0"})
    pats = {a["val"] for a in atoms_flat(atoms) if a["op"] in ("matches", "notmatches")}
    rt = regextab(pats, strings)
    return {
        "worlds": worlds, "docs": docs, "cfgs": [cfgs_all[i] for i in cfgsel], "cfgsel": cfgsel,
        "atoms": atoms, "combo": [i + 1 for i in combo], "colls": colls, "maxn": maxn,
        "floattab": ft, "regextab": rt, "nest": nest, "parts": want_parts, "classes": want_classes,
    }


def atoms_flat(atoms):
    out = []
    def rec(e):
        if e["t"] == "match":
            out.append(e)
        for c in ("e", "l", "r"):
            if e.get(c):
                rec(e[c])
    for a in atoms:
        rec(a)
    return out


# ---------------------------------------------------------------------------------------
# atoms

NUM = ["0", "1", "-5", "5", "0x5", "0b101", "1_0", "-0", "1.5", "99999999999999999999", "1e400", "abc", "", "T", "+5", "05", "017", "08",
       "1.0000000596046448", "16777217.000000001", "9007199254740993", "9007199254740992", "0x1p-2", "1e-400", ".5", "5.", "inf"]
BOOLS = ["true", "false", "1", "0", "T", "F", "TRUE", "yes", "", "t", "True", "tRUE"]
STRS = ["hello", "ell", "", "abc", "^h.*o$", "(a|b", "l{2}", "x", "k", "a", "1", "[0-9]+", "^$", "/usr/bin", "o w"]
CONT = ["1", "a", "x", "", "abc", "5", "true", "k", "0", "http", "maybe", "0.0", "1.5", "s", "one", "2", "300", "-212", "32768", "44"]
ABSENT = ["1", "a", "", "(a|b"]          # incl. a pattern that does not compile
OPS_V = ["==", "!=", "in", "notin", "matches", "notmatches"]
OPS_E = ["empty", "notempty"]


def pool_for(node):
    if node is None:
        return ABSENT
    k = node["k"]
    if k == "ptr":
        return pool_for(node["to"])
    if k == "bool":
        return BOOLS
    if k in ("int", "uint", "f32", "f64", "jnum"):
        return NUM
    if k == "str":
        return STRS
    if k in ("list", "map"):
        return CONT
    return ABSENT + ["abc", "0"]


def atoms_for_docs(docs, depth, rnd, per_path=None, absent=True, ops_v=OPS_V, ops_e=OPS_E, extra_lits=()):
    """match atoms for every structural path of the documents; literals are drawn from the pool of the node's kind
    (all of it, or a seeded sample of per_path) plus the node's own value spellings"""
    paths = []
    for d in docs:
        walk_paths(d["av"], [], depth, paths, absent)
    bypath = {}
    pools = {}
    for p, node in paths:
        if not p:
            continue
        key = tuple(p)
        own = bypath.setdefault(key, [])
        pl = pools.setdefault(key, [])
        for l in pool_for(node):
            if l not in pl:
                pl.append(l)
        if node is not None:
            for t in own_text(node):
                if t not in own:
                    own.append(t)
            nd = node["to"] if node["k"] == "ptr" else node
            if nd["k"] == "list" and "bs" in nd:
                for t in (nd["bs"], nd["bs"][:1], "^" + nd["bs"][:1]):
                    if t not in own:
                        own.append(t)
            if nd["k"] == "list":
                for e in nd["v"][:3]:
                    for t in own_text(e):
                        if t not in own:
                            own.append(t)
            if nd["k"] == "map":
                for e in nd["v"][:2]:
                    kt = key_text(e["key"])
                    if kt is not None and kt not in own:
                        own.append(kt)
                    # literals congruent to a key modulo the key type's width (must not wrap onto it)
                    if e["key"]["k"] in ("int", "uint") and nd["kt"].get("bits") in (8, 16, 32):
                        for t in (str(limbs_to_int(e["key"]["v"]) + 2 ** nd["kt"]["bits"]), str(limbs_to_int(e["key"]["v"]) - 2 ** nd["kt"]["bits"])):
                            if t not in own:
                                own.append(t)
    atoms = []
    for key in sorted(bypath):
        pl = list(pools[key])
        if per_path is not None and len(pl) > per_path:
            rnd.shuffle(pl)
            pl = pl[:per_path]
        lits = pl + [t for t in bypath[key] if t not in pl] + [t for t in extra_lits if t not in pl]
        for op in ops_v:
            for l in lits:
                atoms.append(match(key, op, l))
        for op in ops_e:
            atoms.append(match(key, op))
    return atoms, sorted(bypath)


def cases_cfg(invariants=("BuilderOK",)):
    return ('SPECIFICATION Spec\nCONSTANT WorldFile = "world.json"\n' + "".join("INVARIANT %s\n" % i for i in invariants)
            + "CHECK_DEADLOCK FALSE\n")


_cases_cache = {}


def enumerate_cases(chk, tag, world, module, invariants, timeout):
    """run TLC on the world (once per identical world in this process) and leave world.json / cases.ndjson in the tag's directory"""
    wd = sub(tag)
    key = hashlib.sha1((module + "|" + ",".join(invariants) + "|" + json.dumps(world, sort_keys=True)).encode()).hexdigest()
    if key in _cases_cache:
        src = _cases_cache[key]
        for f in ("world.json", "cases.ndjson"):
            shutil.copy(os.path.join(src, f), os.path.join(wd, f))
        log("%s: reusing the cases TLC enumerated for %s" % (tag, os.path.basename(src)))
        return wd
    r = run_tlc(module, cases_cfg(invariants), wd, files={"world.json": world}, timeout=timeout)
    chk.add_tlc(r)
    if r.violation:
        raise Infra("model invariant %s violated in %s:\n%s" % (r.violation, tag, r.out[-2500:]))
    with open(os.path.join(wd, "cases.ndjson"), "w") as fh:
        for c in r.cases:
            fh.write(json.dumps(c) + "\n")
    _cases_cache[key] = wd
    return wd


def run_world(chk, tag, world, module="Cases", invariants=("BuilderOK",), replay_args=(), timeout=3000):
    """TLC enumerates the world's cases, the harness replays them; returns the harness result"""
    wd = enumerate_cases(chk, tag, world, module, invariants, timeout)
    harness(["replay", "-world", os.path.join(wd, "world.json"), "-cases", os.path.join(wd, "cases.ndjson"),
             "-out", os.path.join(wd, "replay.json")] + list(replay_args))
    res = json.load(open(os.path.join(wd, "replay.json")))
    res["mismatches"] = res.get("mismatches") or []
    res["samples"] = res.get("samples") or []
    log("%s: %d atoms, %d trees, %d evaluations, outcomes %s, skipped %d %s" % (
        tag, len(world["atoms"]), res["cases"], res["evals"], res["byoutcome"], res["skipped"], res["skipwhy"]))
    if res["evals"] == 0:
        raise Infra("%s: nothing was evaluated" % tag)
    return res


def run_relate(chk, tag, world, mode, invariants=("BuilderOK",), module="Cases", extra=(), timeout=3000):
    """TLC enumerates the world's trees; the harness records observation groups of the real code for them;
    TLC (spec/Rel.tla) validates every group against the law the specification states for it.
    Returns (summary, list of bad groups)."""
    wd = enumerate_cases(chk, tag, world, module, invariants, timeout)
    harness(["relate", "-mode", mode, "-world", os.path.join(wd, "world.json"), "-cases", os.path.join(wd, "cases.ndjson"),
             "-groups", os.path.join(wd, "groups.ndjson"), "-out", os.path.join(wd, "relate.json")] + list(extra))
    summ = json.load(open(os.path.join(wd, "relate.json")))
    bad = validate_groups(chk, wd, os.path.join(wd, "groups.ndjson"))
    log("%s: %d trees, %d groups %s, %d evaluations, skipped %s, %d bad" % (
        tag, summ["trees"], summ["groups"], summ["byrel"], summ["evals"], summ["skipped"], len(bad)))
    if summ["groups"] == 0:
        raise Infra("%s: no observation group was recorded" % tag)
    return summ, bad


def validate_groups(chk, wd, gfile):
    """spec/Rel.tla steps through the recorded groups; returns the groups it rejects"""
    groups = [json.loads(l) for l in open(gfile)]
    if not groups:
        return []
    cfg = 'SPECIFICATION Spec\nCONSTANT GroupFile = "%s"\nPOSTCONDITION Consumed\nCHECK_DEADLOCK FALSE\n' % os.path.basename(gfile)
    r = run_tlc("Rel", cfg, wd, workers=1, timeout=1800, want_cases=False)
    chk.add_tlc(r)
    if r.violation:
        raise Infra("trace of groups not consumed: %s\n%s" % (r.violation, r.out[-1500:]))
    if r.distinct != len(groups) + 1:
        raise Infra("Rel consumed %d of %d groups" % (r.distinct - 1, len(groups)))
    bad = []
    for l in r.prints:
        m = re.match(r'"BAD (\d+)"', l)
        if m:
            bad.append(groups[int(m.group(1)) - 1])
    chk.cov["traces_validated_against_impl"] += len(groups)
    return bad


def api_world(mode, worlds, docs, cfgs_all, cfgsel, exprs, maxlen, evs=(), options=(), probes=(), steps=(), conts=()):
    """world file for spec/Api.tla"""
    strings = set()
    for d in list(docs) + list(conts):
        walk_strings(d["av"], strings)
    for c in cfgs_all:
        if c["unknown"]["k"] != "none":
            walk_strings(c["unknown"], strings)
    strings.add("dflt")                         # the value supplied by the hook "nildef"
    for o in options:
        if o["o"] == "unknown" and o["v"]["k"] != "none":
            walk_strings(o["v"], strings)
    lits = literals_of(exprs)
    parts = path_parts(exprs, [])
    ft = floattab.table(lits | parts | {"0"} | {s for s in strings if len(s) < 30})
    pats = {a["val"] for a in atoms_flat(exprs) if a["op"] in ("matches", "notmatches")}
    return {"mode": mode, "worlds": worlds, "docs": docs, "conts": list(conts), "cfgs": [cfgs_all[i] for i in cfgsel], "cfgsel": cfgsel,
            "exprs": exprs, "evs": list(evs), "options": list(options), "probes": list(probes), "steps": list(steps), "maxlen": maxlen,
            "floattab": ft, "regextab": regextab(pats, strings)}


def run_api(chk, tag, world, invariants=(), timeout=3000):
    """TLC (spec/Api.tla) enumerates histories / option lists / filter runs; the harness executes them on the real
    library and records observation groups; Rel.tla validates the groups.  Returns (summary, bad groups)."""
    wd = sub(tag)
    cfg = ('SPECIFICATION Spec\nCONSTANT WorldFile = "world.json"\n' + "".join("INVARIANT %s\n" % i for i in invariants) + "CHECK_DEADLOCK FALSE\n")
    r = run_tlc("Api", cfg, wd, files={"world.json": world}, timeout=timeout)
    chk.add_tlc(r)
    if r.violation:
        raise Infra("model invariant %s violated in %s:\n%s" % (r.violation, tag, r.out[-2500:]))
    with open(os.path.join(wd, "cases.ndjson"), "w") as fh:
        for c in r.cases:
            fh.write(json.dumps(c) + "\n")
    harness(["api", "-world", os.path.join(wd, "world.json"), "-cases", os.path.join(wd, "cases.ndjson"),
             "-groups", os.path.join(wd, "groups.ndjson"), "-out", os.path.join(wd, "api.json")])
    summ = json.load(open(os.path.join(wd, "api.json")))
    summ["specmismatch"] = summ.get("specmismatch") or []
    summ["samples"] = summ.get("samples") or []
    bad = validate_groups(chk, wd, os.path.join(wd, "groups.ndjson"))
    log("%s: %d cases, %d groups %s, %d evaluations, %d spec mismatches, %d bad" % (
        tag, summ["cases"], summ["groups"], summ["byrel"], summ["evals"], len(summ["specmismatch"]), len(bad)))
    if summ["groups"] == 0:
        raise Infra("%s: no observation group was recorded" % tag)
    return summ, bad


def run_random(chk, tag, seed, ndocs, per, timeout=3000):
    """code -> spec: the harness builds random documents by reflection and random expressions over their paths, evaluates
    them with the real code and records the observations; TLC (spec/Validate.tla) steps through the recording and accepts
    an observation when the reference semantics allows it.  Returns (recording, rejected observations)."""
    wd = sub(tag)
    out = os.path.join(wd, "rand.json")
    harness(["randeval", "-seed", str(seed), "-docs", str(ndocs), "-per", str(per), "-out", out])
    rec = json.load(open(out))
    rec["never"] = rec.get("never") or []
    cases = rec["cases"] or []
    if not cases:
        raise Infra("%s: the random driver recorded nothing" % tag)
    exprs = [c["e"] for c in cases]
    strings, jn = set(), set()
    for d in rec["docs"]:
        walk_strings(d["av"], strings)
    for c in rec["cfgs"]:
        if c["unknown"]["k"] != "none":
            walk_strings(c["unknown"], strings)
    lits = literals_of(exprs)
    parts = path_parts(exprs, [])
    ft = floattab.table(lits | parts | {"0"} | {s for s in strings if len(s) < 40})
    pats = {a["val"] for a in atoms_flat(exprs) if a["op"] in ("matches", "notmatches")}
    world = {"docs": rec["docs"], "cfgs": rec["cfgs"], "cases": [{"e": c["e"], "d": c["d"], "c": c["c"], "o": c["o"]} for c in cases],
             "floattab": ft, "regextab": regextab(pats, strings)}
    cfg = 'SPECIFICATION Spec\nCONSTANT WorldFile = "world.json"\nPOSTCONDITION Consumed\nCHECK_DEADLOCK FALSE\n'
    r = run_tlc("Validate", cfg, wd, files={"world.json": world}, workers=1, timeout=timeout, want_cases=False)
    chk.add_tlc(r)
    if r.violation or r.distinct != len(cases) + 1:
        raise Infra("%s: the recording was not consumed (%s, %d of %d)" % (tag, r.violation, r.distinct - 1, len(cases)))
    bad = []
    for l in r.prints:
        if l.startswith('"BAD '):
            b = json.loads(json.loads(l)[4:])
            c = cases[b["n"] - 1]
            bad.append({"expr": c["text"], "doc": rec["docs"][c["d"] - 1]["name"], "cfg": rec["cfgs"][c["c"] - 1]["name"], "spec": b["spec"], "impl": b["impl"],
                        "document": json.dumps(rec["docs"][c["d"] - 1]["av"])[:1500]})
    by = {}
    for c in cases:
        by[c["o"]] = by.get(c["o"], 0) + 1
    log("%s: %d random documents, %d observations %s validated by TLC, %d rejected, %d panics / (true, err)" % (tag, len(rec["docs"]), len(cases), by, len(bad), len(rec["never"])))
    chk.cov["traces_validated_against_impl"] += len(cases)
    chk.cov["evaluations"] += len(cases)
    rec["by"] = by
    return rec, bad


def run_machine(chk, tag, docs, cfgs_all, cfgsel, exprs, worlds=None, timeout=3000):
    """the small-step evaluator of spec/Eval.tla refines Den on every (expression, configuration, document) and keeps its stack /
    scoping / order invariants; with worlds given, every finished run of the machine is printed as a trace record (result + resolve
    events in order) and compared with the real evaluator running under a recording hook (evaluation traces; a fingerprint like the
    parser's step traces: differences are reported in the evidence, verdicts rest on outcomes)"""
    strings = set()
    for d in docs:
        walk_strings(d["av"], strings)
    for i in cfgsel:
        if cfgs_all[i]["unknown"]["k"] != "none":
            walk_strings(cfgs_all[i]["unknown"], strings)
        if cfgs_all[i]["hook"] == "nildef":
            strings.add("dflt")                 # the value this hook supplies
        if cfgs_all[i]["hook"] == "label":
            strings |= {"n:" + s for s in strings if len(s) < 8}
    lits = literals_of(exprs)
    parts = path_parts(exprs, [])
    jn = {s for s in strings if len(s) < 30}
    world = {"docs": docs, "cfgs": [cfgs_all[i] for i in cfgsel], "exprs": exprs, "floattab": floattab.table(lits | parts | jn | {"0"}),
             "regextab": regextab({a["val"] for a in atoms_flat(exprs) if a["op"] in ("matches", "notmatches")}, strings),
             "emit": worlds is not None, "worlds": list(worlds or []), "cfgsel": list(cfgsel)}
    cfg = ('SPECIFICATION Spec\nCONSTANT WorldFile = "world.json"\nINVARIANTS Refines EnvBalanced ShortCircuit InOrder Progress\nCHECK_DEADLOCK FALSE\n')
    wd = sub(tag)
    r = run_tlc("Eval", cfg, wd, files={"world.json": world}, timeout=timeout, want_cases=worlds is not None)
    chk.add_tlc(r)
    if r.violation:
        raise Infra("the small-step evaluator model violates %s:\n%s" % (r.violation, r.out[-3000:]))
    log("%s: small-step machine: %d expressions x %d configurations x %d documents, %d states, all invariants hold" % (
        tag, len(exprs), len(cfgsel), len(docs), r.distinct))
    if worlds is not None:
        with open(os.path.join(wd, "cases.ndjson"), "w") as fh:
            for c in r.cases:
                fh.write(json.dumps(c) + "\n")
        harness(["evtrace", "-world", os.path.join(wd, "world.json"), "-cases", os.path.join(wd, "cases.ndjson"), "-out", os.path.join(wd, "evtrace.json")])
        res = json.load(open(os.path.join(wd, "evtrace.json")))
        tr, oc = res.get("trace") or [], res.get("outcome") or []
        log("%s: %d evaluation traces (%d resolve events) of the real evaluator compared with the machine: %d outcome differences, %d event-sequence differences%s" % (
            tag, res["traces"], res["events"], len(oc), len(tr), (" e.g. %s" % json.dumps((tr + oc)[0])[:600]) if tr or oc else ""))
        chk.cov["traces_validated_against_impl"] += res["traces"]
        chk.notes["evaluation_traces_compared (result + hook-visible resolve events in order, Eval.tla vs real evaluator)"] = res["traces"]
        chk.notes["evaluation_trace_differences (fingerprint, not a verdict)"] = len(tr) + len(oc)
        if res.get("sample"):
            chk.sample(res["sample"])
        r.evtrace = res
    return r


def run_tlaps(chk, module, timeout=900):
    """discharge the proof obligations of spec/<module>.tla with TLAPS; returns their number"""
    pd = sub("tlaps-" + module)
    shutil.copy(os.path.join(SPEC, module + ".tla"), pd)
    try:
        tp = subprocess.run(["tlapm", "--cleanfp", "--threads", "8", module + ".tla"], cwd=pd, capture_output=True, text=True, timeout=timeout)
    except (FileNotFoundError, subprocess.TimeoutExpired) as e:
        raise Infra("tlapm on %s: %s" % (module, e))
    out = tp.stdout + tp.stderr
    m = re.search(r"All (\d+) obligations? proved", out)
    if not m:
        raise Infra("TLAPS did not prove %s.tla:\n%s" % (module, out[-1500:]))
    log("TLAPS: all %s obligations of %s.tla proved" % (m.group(1), module))
    chk.notes["tlaps_%s_obligations_proved" % module] = int(m.group(1))
    return int(m.group(1))


# ---------------------------------------------------------------------------------------
# verdicts and evidence

def known_findings():
    p = os.path.join(VERIF, "known_findings.jsonl")
    out = []
    if os.path.exists(p):
        for l in open(p):
            l = l.strip()
            if l and not l.startswith("#") and l.startswith("{"):
                out.append(json.loads(l))
    return out


class Check:
    def __init__(self, pid, level="model_checking"):
        self.pid = pid
        self.level = level
        self.tier = os.environ.get("VERIF_TIER", "quick")
        self.seed = int(os.environ.get("VERIF_SEED", "1"))
        self.t0 = time.time()
        self.cov = {"states": 0, "transitions": 0, "traces_validated_against_impl": 0, "samples": [],
                    "evaluations": 0, "distinct_nontrivial": 0}
        self.assumptions = []
        self.violations = []
        self.known = []
        self.notes = {}

    def add_tlc(self, r):
        self.cov["states"] += r.distinct
        self.cov["transitions"] += r.generated

    def sample(self, s):
        if len(self.cov["samples"]) < 8:
            self.cov["samples"].append(s)

    def violation(self, record):
        """record = dict describing the failing behaviour of the real code"""
        for k in known_findings():
            if k.get("property") == self.pid and k.get("status", "open") == "open" and finding_matches(k.get("match", {}), record):
                if k["id"] not in [x["id"] for x in self.known]:
                    self.known.append(k)
                return
        self.violations.append(record)

    def finish(self):
        wall = time.time() - self.t0
        os.makedirs(os.path.join(VERIF, "evidence"), exist_ok=True)
        ev = {"property_id": self.pid, "tier": self.tier, "seed": self.seed, "level": self.level,
              "coverage": dict(self.cov, **self.notes), "assumptions": self.assumptions, "wall_s": round(wall, 1),
              "violations": len(self.violations)}
        if not ev["coverage"]["samples"]:
            ev["coverage"]["samples"] = ["(no case was explored)"]
        with open(os.path.join(VERIF, "evidence", self.pid + ".json"), "w") as fh:
            json.dump(ev, fh, indent=1)
        for k in self.known:
            print("KNOWN-FINDING: property=%s %s" % (self.pid, k["what"]))
        if self.violations:
            os.makedirs(os.path.join(VERIF, "replays"), exist_ok=True)
            body = json.dumps({"property": self.pid, "violations": self.violations[:50]}, indent=1, sort_keys=True)
            h = hashlib.sha1(body.encode()).hexdigest()[:10]
            path = os.path.join(VERIF, "replays", "%s-%s.json" % (self.pid, h))
            with open(path, "w") as fh:
                fh.write(body)
            for v in self.violations[:5]:
                log("violation:", json.dumps(v)[:600])
            print("VIOLATION property=%s replay=%s" % (self.pid, path))
            return 1
        print("OK property=%s tier=%s seed=%d %s wall=%.0fs" % (self.pid, self.tier, self.seed, json.dumps(
            {k: v for k, v in ev["coverage"].items() if isinstance(v, int)}), wall))
        return 0


def finding_matches(m, rec):
    for k, v in m.items():
        rv = rec.get(k)
        if isinstance(v, dict) and "regex" in v:
            if rv is None or re.search(v["regex"], str(rv)) is None:
                return False
        elif rv != v:
            return False
    return True


def main(fn, pid):
    try:
        rc = fn()
    except Infra as e:
        log("INFRASTRUCTURE ERROR (%s): %s" % (pid, e))
        sys.exit(2)
    except BaseException as e:  # a bug in the machinery is never a violation
        import traceback
        traceback.print_exc()
        log("INFRASTRUCTURE ERROR (%s): unexpected %s" % (pid, type(e).__name__))
        sys.exit(2)
    sys.exit(rc)
