#!/usr/bin/env python3
"""C03 - not/and/or are truth-functional, short-circuit left to right, errors propagate.

TLC enumerates all ordered pairs (A, B) from a pool of sub-expressions (checking the laws on the reference
semantics, invariant LawConn); the harness evaluates A, B, `A and B`, `A or B`, `not A`, the De Morgan
rewrites and `not not A` with the real code; TLC (Rel.tla) checks every recorded group against the 3x3 tables."""
import json, os, random, sys
sys.path.insert(0, os.path.dirname(os.path.abspath(__file__)))
import vlib
from vlib import match


def coll(op, path, mode, n1, n2, body):
    return {"t": "coll", "op": op, "sel": {"ty": "bexpr", "path": path}, "mode": mode, "n1": n1, "n2": n2, "e": body, "val": "", "hv": False}


def pool(rnd, data, n):
    has_dots = any(e["key"].get("v") == "dots" for d in data["docs"] if d["av"]["k"] == "map" for e in d["av"]["v"])
    atoms, keys = vlib.atoms_for_docs(data["docs"], 2, rnd, per_path=4)
    rnd.shuffle(atoms)
    fixed = [
        match(["s"], "==", "hello"), match(["s"], "!=", "hello"), match(["i"], "==", "abc"), match(["zz"], "==", "1"),
        match(["s"], "matches", "("), match(["s"], "matches", "["), match(["s"], "notmatches", "^h"),
        match(["many", "zz"], "==", "1"), match(["many", "zz"], "!=", "1"), match(["many", "zz"], "empty"), match(["many", "zz"], "notmatches", "("),
        match(["meta", "zz"], "==", "x"), match(["meta", "zz"], "notempty"), match(["nil"], "empty"), match(["b"], "==", "true"),
        coll("any", ["li"], "default", "v", "", match(["v"], "==", "2")), coll("all", ["li"], "default", "v", "", match(["v"], "==", "2")),
        coll("any", ["any"], "default", "v", "", match(["v"], "==", "x")), coll("all", ["zz"], "default", "v", "", match(["v"], "==", "x")),
        coll("any", ["many", "zz"], "default", "v", "", match(["v"], "==", "x")), coll("all", ["many", "zz"], "default", "v", "", match(["v"], "==", "x")),
        coll("any", ["mi"], "both", "k", "v", match(["v"], "==", "2")), coll("all", ["tags"], "default", "v", "", match(["v"], "!=", "a")),
        # a binding named like a top-level key that the other operand uses; early exit of the quantifier
        coll("any", ["li"], "default", "i", "", match(["i"], "==", "2")), match(["i"], "==", "-5"), match(["i"], "!=", "-5"),
        coll("all", ["li"], "both", "s", "b", match(["b"], "==", "1")), match(["b"], "==", "true"),
        coll("any", ["tags"], "default", "name", "", match(["name"], "==", "b")), match(["name"], "==", "web"),
        # the same selector with different patterns / literals
        match(["s"], "matches", "^h"), match(["s"], "matches", "zzz"), match(["s"], "matches", "o$"), match(["name"], "matches", "^web"), match(["name"], "matches", "dev$"),
        # different selectors whose parts spell the same text when joined
        match(["dots", "a", "b"], "==", "2"), match(["dots", "a.b"], "==", "1"), match(["dots", "a", "b"], "==", "1"), match(["dots", "a.b"], "!=", "1"),
        match(["dots", "a/b"], "==", "5"), match(["dots", "a", "c", "d"], "==", "4"), match(["dots", "a", "c/d"], "==", "3"), match(["dots", "a b"], "==", "6"), match(["dots", "ab"], "==", "7"),
    ]
    # composite operands: pairs over them are chains of three and four operands in every grouping (an evaluator that treats a chain
    # as one flat list must still behave like the nested pairs)
    T, F, E, A = match(["s"], "==", "hello"), match(["s"], "!=", "hello"), match(["i"], "==", "abc"), match(["many", "zz"], "==", "1")
    def bn(op, l, r):
        return {"t": op, "l": l, "r": r, "val": "", "hv": False, "mode": "", "n1": "", "n2": ""}
    def nt(e):
        return {"t": "not", "e": e, "val": "", "hv": False, "mode": "", "n1": "", "n2": ""}
    fixed += [bn("and", T, E), bn("and", T, T), bn("and", F, E), bn("or", F, E), bn("or", F, F), bn("or", T, E), nt(E), nt(T), bn("and", T, A), bn("or", A, E),
              bn("and", T, bn("or", F, E)), nt(bn("and", T, F))]
    return [a for a in fixed if a["t"] != "match" or a["sel"]["path"][0] != "dots" or has_dots] + atoms[:n]


def main():
    chk = vlib.Check("C03")
    rnd = random.Random(chk.seed)
    quick = chk.tier == "quick"
    cells = {}
    for wn, cfgsel, n in (("scalars,containers", [0], 22 if quick else 80), ("json", [0, 2], 16 if quick else 60)):
        data = json.loads(vlib.harness(["data", "-worlds", wn]).stdout)
        atoms = pool(rnd, data, n)
        world = vlib.make_world(wn.split(","), data["docs"], data["cfgs"], cfgsel, atoms, list(range(len(atoms))), [], 3)
        summ, bad = vlib.run_relate(chk, "c03-" + wn.replace(",", "-"), world, "c03", invariants=("BuilderOK", "LawConn"), module="Laws")
        chk.cov["evaluations"] += summ["evals"]
        for g in [json.loads(l) for l in open(os.path.join(vlib.sub("c03-" + wn.replace(",", "-")), "groups.ndjson"))]:
            if g["rel"] in ("and", "or"):
                cells[(g["rel"], g["a"], g["b"])] = cells.get((g["rel"], g["a"], g["b"]), 0) + 1
            elif g["rel"] == "not":
                cells[("not", g["a"])] = cells.get(("not", g["a"]), 0) + 1
        for g in bad:
            chk.violation({"law": g["rel"], "group": {k: v for k, v in g.items() if k != "info"}, "info": g["info"]})
        for s in summ["samples"][:3]:
            chk.sample(s)
        if wn == "json":
            # the code-shaped small-step machine: the right operand is entered only after the left one allowed it (ShortCircuit), and it refines Den
            ex = []
            for a in atoms[:(12 if quick else 30)]:
                for b2 in atoms[:(12 if quick else 30)]:
                    for op in ("and", "or"):
                        ex.append({"t": op, "l": a, "r": b2})
                ex.append({"t": "not", "e": a})
            vlib.run_machine(chk, "c03-machine", data["docs"], data["cfgs"], cfgsel, ex, worlds=wn.split(","))
    # the tables' algebra (double negation, De Morgan, short circuit, error propagation, associativity) proved with TLAPS
    vlib.run_tlaps(chk, "LogicProof")
    chk.cov["distinct_nontrivial"] = sum(cells.values())
    chk.notes["table_cells_hit"] = {" ".join(k): v for k, v in sorted(cells.items())}
    chk.notes["rule"] = ("all ordered pairs (A, B) of a pool of sub-expressions (plain matches, absent keys, erroring coercions, invalid "
                         "regexps, quantifiers) x documents; one group per (composite, parts) family of real evaluations; "
                         "non-trivial = groups of and/or/not (each 3x3 / 3 table cell counted in table_cells_hit)")
    missing = [c for c in [(o, a, b) for o in ("and", "or") for a in "TFE" for b in "TFE"] if c not in cells]
    if missing:
        raise vlib.Infra("table cells never exercised: %s" % missing)
    chk.assumptions.append("relations are judged on outcomes of the real code only; agreement with the reference semantics is C01")
    return chk.finish()


if __name__ == "__main__":
    vlib.main(main, "C03")
