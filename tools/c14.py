#!/usr/bin/env python3
"""C14 - results are deterministic, independent of Go map iteration order.

In the specification a quantifier visits map entries in ascending key order and Execute's error-or-not outcome is a
function of the multiset of element outcomes (Den / Api are functions: invariant HistoryIndependent), so the outcome
is a function of (expression, options, datum).  TLC enumerates quantifiers in all binding modes (also nested, also
key-only bodies that short-circuit in front of an erroring operand) over maps of 2..8 entries whose element outcomes
mix true / false / error; the harness evaluates each r times on the real code (Go randomises the iteration order of
each map on every range) and Rel.tla checks that all repetitions agree; the replay also compares with the specified
outcome.  Filter.Execute over maps is repeated likewise."""
import json, os, random, sys
sys.path.insert(0, os.path.dirname(os.path.abspath(__file__)))
import vlib
from vlib import match


def b(op, l, r):
    return {"t": op, "l": l, "r": r, "val": "", "hv": False, "mode": "", "n1": "", "n2": ""}


def coll(op, path, mode, n1, n2, body):
    return {"t": "coll", "op": op, "sel": {"ty": "bexpr", "path": path}, "mode": mode, "n1": n1, "n2": n2, "e": body, "val": "", "hv": False}


def main():
    chk = vlib.Check("C14")
    quick = chk.tier == "quick"
    reps = 48 if quick else 1024
    data = json.loads(vlib.harness(["data", "-worlds", "maps"]).stdout)
    bodies = [match(["v", "V"], "==", "2"), match(["v", "V"], "!=", "2"), match(["v", "V"], "==", "1"), match(["v"], "==", "1"), match(["v"], "==", "x"),
              b("or", match(["k"], "==", "b"), match(["zz"], "==", "1")), b("and", match(["k"], "!=", "b"), match(["zz"], "==", "1")),
              b("or", match(["k"], "==", "c"), match(["v", "V"], "==", "2")), match(["k"], "matches", "^[bc]"), match(["k"], "==", "k4"),
              b("or", match(["k"], "==", "e4"), match(["top"], "==", "x")),
              coll("any", ["v"], "both", "k2", "v2", match(["v2", "V"], "==", "2")), coll("all", ["v"], "default", "k2", "", b("or", match(["k2"], "==", "c1"), match(["zz"], "==", "1")))]
    # membership and emptiness tests whose implementation may range over a map
    singles = [match(["ifk"], op, l) for op in ("in", "notin") for l in ("x", "5", "abc", "2.5", "true", "1e999")] + \
              [match([k], op, l) for k in ("ifl", "m3", "mi", "ms", "im3", "nk3", "mix") for op in ("in", "notin") for l in ("x", "a", "1", "5")] + \
              [match([k], "empty") for k in ("ifk", "im3", "m8", "mix")]
    nb = len(bodies)
    bodies = bodies + singles
    colls = []
    for p in (["m2"], ["m2b"], ["m3"], ["m3b"], ["m4"], ["m5"], ["m8"], ["ok3"], ["mm"], ["ms"], ["mi"], ["mix"], ["keys"], ["l", "0"], ["l", "1"], ["mm", "r2"], ["im3"], ["nk3"], ["ifk"], ["nat"], ["m3e"], ["pm3"], ["pm4"], ["pl"], ["hp", "M"], ["hp", "N"], ["hp", "V"]):
        for op in ("any", "all"):
            for mode, n1, n2 in (("default", "k", ""), ("index", "k", ""), ("value", "", "v"), ("both", "k", "v")):
                colls.append({"op": op, "sel": {"ty": "bexpr", "path": p}, "mode": mode, "n1": n1, "n2": n2})
    world = vlib.make_world(["maps"], data["docs"], data["cfgs"], [0], bodies, list(range(nb)), colls, 2)
    summ, bad = vlib.run_relate(chk, "c14", world, "c14", extra=["-reps", str(reps)])
    chk.cov["evaluations"] += summ["evals"]
    mixed = 0
    for l in open(os.path.join(vlib.sub("c14"), "groups.ndjson")):
        g = json.loads(l)
        if g["obs"][0] in "TFE":
            mixed += 1
    for g in bad:
        chk.violation({"law": "repetitions of one call agree", "outcomes_seen": g["obs"], "info": g["info"]})
    for s in summ["samples"][:3]:
        chk.sample(s)
    # the specified outcome (ascending key order)
    res = vlib.run_world(chk, "c14-den", world)
    for m in res["mismatches"]:
        if m.get("text") != "...more" and m["got"]["o"] in "TFE":
            chk.violation({"law": "outcome in ascending key order", "expr": m["text"], "spec": m["want"], "impl": m["got"]["o"]})
    # Filter.Execute over maps
    cd = json.loads(vlib.harness(["data", "-worlds", "conts"]).stdout)
    p = vlib.harness(["repeat-filter", "-reps", str(reps)])
    fr = json.loads(p.stdout)
    chk.cov["evaluations"] += fr["runs"]
    for v in fr["unstable"]:
        chk.violation({"law": "repetitions of one Execute agree", **v})
    chk.cov["distinct_nontrivial"] = mixed + fr["cases"]
    chk.notes["repetitions_per_case"] = reps
    chk.notes["rule"] = ("quantifier shells (any/all x 4 binding modes) over %d map-shaped paths (2..8 entries, nested, inside lists, int / named / interface keys, held by pointer) x %d bodies and membership tests, each "
                         "evaluated %d times on one evaluator; %d Execute cases over maps repeated likewise; with two or more visiting orders that "
                         "differ in outcome, %d independent orders agree with probability < 2^-%d" % (27, len(bodies), reps, fr["cases"], reps, reps - 1))
    return chk.finish()


if __name__ == "__main__":
    vlib.main(main, "C14")
