#!/usr/bin/env python3
"""C17 - Filter.Execute returns exactly the elements for which Evaluate is true.

spec/Api.tla (mode "filter"): for every (filter expression, container) pair TLC computes what Execute must return -
error, or the kept positions / keys in order and the result type (invariant FilterLaws).  The harness runs the real
Execute and records: Execute against Evaluate on every element (real against real), input unchanged, nil filter,
idempotence, the E / not E partition; the replay compares result shape, kept positions and type with the specification."""
import json, os, sys
sys.path.insert(0, os.path.dirname(os.path.abspath(__file__)))
import vlib
from vlib import match


def b(op, l, r):
    return {"t": op, "l": l, "r": r, "val": "", "hv": False, "mode": "", "n1": "", "n2": ""}


def main():
    chk = vlib.Check("C17")
    data = json.loads(vlib.harness(["data", "-worlds", "conts"]).stdout)
    conts = data["docs"]
    exprs = [
        match(["X"], "==", "1"), match(["X"], "!=", "1"), match(["Y"], "==", "a"), match(["Y"], "in", "a"), match(["Y"], "matches", "^[ab]$"),
        match(["X"], "==", "abc"), match(["Tags"], "empty"), match(["Tags"], "notempty"), match(["M", "k"], "==", "1"), match(["M", "zz"], "!=", "1"),
        match(["P"], "==", "1"), match(["hid"], "==", "1"), match(["zz"], "==", "1"), match(["Y"], "notempty"),
        b("and", match(["X"], "==", "1"), match(["Y"], "!=", "a")), b("or", match(["X"], "==", "2"), match(["Y"], "==", "c")),
        {"t": "not", "e": match(["X"], "==", "1"), "val": "", "hv": False, "mode": "", "n1": "", "n2": ""},
        {"t": "coll", "op": "any", "sel": {"ty": "bexpr", "path": ["Tags"]}, "mode": "default", "n1": "t", "n2": "", "e": match(["t"], "==", "t"), "val": "", "hv": False},
        {"t": "coll", "op": "all", "sel": {"ty": "bexpr", "path": ["M"]}, "mode": "both", "n1": "k", "n2": "v", "e": match(["v"], "==", "1"), "val": "", "hv": False},
        match(["0"], "==", "1", ty="ptr"), match(["k"], "==", "1"),
        # indexes that only some elements have (out of range is an error, not "no match")
        match(["Tags", "0"], "==", "t"), match(["Tags", "1"], "==", "b"), match(["Tags", "2"], "!=", "b"),
        {"t": "not", "e": match(["Tags", "1"], "==", "b"), "val": "", "hv": False, "mode": "", "n1": "", "n2": ""},
        b("or", match(["X"], "==", "1"), match(["Tags", "1"], "==", "b")),
    ]
    world = vlib.api_world("filter", ["conts"], [], data["cfgs"], [0], exprs, 1, conts=conts)
    world["docsel"] = []
    summ, bad = vlib.run_api(chk, "c17", world, invariants=("FilterLaws",))
    chk.cov["evaluations"] += summ["evals"]
    for g in bad:
        chk.violation({"law": g["info"].get("law"), "info": g["info"]})
    for m in summ["specmismatch"]:
        chk.violation({"law": "result shape, kept positions and type prescribed by the specification", **m})
    for s in summ["samples"][:4]:
        chk.sample(s)
    chk.cov["distinct_nontrivial"] = summ["byrel"].get("flag", 0)
    chk.notes["rule"] = ("%d filter expressions (every operator, connectives, quantifiers, absent / hidden / erroring selectors) x %d containers "
                         "(slices, named slices, arrays, pointer and interface slices, slices of maps with an erroring element first / middle / "
                         "last, maps keyed by string / int / named string / interface, empty and nil containers, nil, scalars, struct, pointer to "
                         "slice, chan); non-trivial = flags recorded (Execute vs Evaluate, input unchanged, nil filter, idempotence, partition)"
                         % (len(exprs), len(conts)))
    chk.notes["exhaustive"] = True
    return chk.finish()


if __name__ == "__main__":
    vlib.main(main, "C17")
