#!/usr/bin/env python3
"""Regenerates MANIFEST.json from the table below (kept in one place so that it stays valid)."""
import json, os
V = os.path.dirname(os.path.dirname(os.path.abspath(__file__)))
ENGINE = "TLC + Go conformance harness"
MC = "model_checking"
CHECKS = {
 "C01": (MC, "TLC enumerates every expression tree of a bounded universe (all atoms singly, <=3-node combinations, quantifier shells in four binding modes) over typed worlds (scalars of every kind, containers, records, JSON documents, tagged structs, hook-wrapped values, every reflect.Kind, absent keys, boundary values) and assigns each (tree, configuration, document) the outcome of the TLA+ reference semantics Den; the Go harness replays every case on the real evaluator and compares true/false/error", "reference semantics Den (spec/Den.tla) enumerated by TLC (spec/Cases.tla), replayed on the implementation"),
 "C02": (MC, "TLC evaluates the reference readings of EVERY string up to a length over the literal alphabet (exact 64-bit integers in TLA+, floats from an exact-rational table) and of boundary spellings; the harness compares the five Coerce* functions value-for-value and error class for error class, and `sel == lit` on selectors of every scalar kind in bare / quoted / back-quoted rendering", "TLA+ transcription of the literal readings (spec/Lit.tla, Coerce.tla) exhaustively compared with the implementation; Cases.tla for equality through the evaluator"),
 "C03": (MC, "TLC checks the 3x3 tables, short circuit, double negation and De Morgan on the reference semantics for all ordered pairs of a sub-expression pool (invariant LawConn) and enumerates the pairs; the harness evaluates parts and composites with the real code; TLC (Rel.tla) validates every recorded group against the tables", "laws proved on the TLA+ model by TLC (spec/Laws.tla); observation groups of the real code validated by TLC (spec/Rel.tla)"),
 "C04": (MC, "TLC checks on the reference semantics that each negated operator is Neg3 of the positive one incl. absent keys (LawNeg) for every (selector, literal) atom of five worlds; the harness evaluates positive, negated, not(positive) and contains-spelled forms on the real code; Rel.tla validates each group", "laws on the TLA+ model (Laws.tla) + trace validation of observation groups (Rel.tla)"),
 "C05": (MC, "TLC classifies every selector (present / absent from a map / absent otherwise / error) with the reference walk over a document with parents of every shape; the harness evaluates the real code under ten configurations; Rel.tla validates the documented table, the error classification, the as-if-resolved-to-v substitution and the fold relation inside quantifier bodies under unknown values", "selector classification by the TLA+ model; observation groups validated by TLC (Rel.tla)"),
 "C06": (MC, "TLC checks quantifier = early-exit fold over the unrolled bodies on the reference semantics (LawUnroll) and prints the elements the specification sees; the harness evaluates each quantifier and each unrolled body P[S.i] on the real code; Rel.tla validates the fold; position-binding cases are compared with the reference outcome", "LawUnroll on the TLA+ model; unrolling relation on real observations validated by TLC"),
 "C07": (MC, "TLC checks that the reference outcome is independent of the selector type (LawSpell) and enumerates atoms and quantifiers over every structural path; the harness renders each in every admissible spelling, parses and evaluates with the real code; Rel.tla validates equal outcomes and equal parsed paths", "spelling invariance on the TLA+ model + validated observation groups"),
 "C08": (MC, "paired documents differing only in fields hidden under the tag in use and in unexported fields; TLC enumerates expressions naming those fields in every way under three tag names and computes the reference outcome (hidden fields never resolve); the harness evaluates both documents of each pair (2-safety) and Rel.tla validates equality; the replay checks the reference outcome", "non-interference as 2-safety over real observations validated by TLC; reference semantics for the never-resolves clause"),
 "C09": (MC, "TLC enumerates the operator x kind matrix (8 operators x every reflect.Kind incl. Invalid, in every position: map value, behind pointers, nil pointer, interface / typed / pointer slices, arrays, map values and keys) plus quantifier shells; in the specification every reflect precondition is an explicit guard so only T/F/E exist; the harness replays each case: a recovered panic or (true, err) is the violation", "TLC-enumerated cases replayed on the implementation; verdict on panics and (true, err) only"),
 "C13": (MC, "spec/Api.tla: every history of up to k Evaluate / Execute calls on long-lived evaluators and filters (invariant HistoryIndependent; documents are constants no action writes); the harness runs each history on one real object and compares every call with a fresh evaluator on a fresh document, the document's projection before/after, and Expression(); Rel.tla validates", "explicit-state model of the API object system, histories enumerated by TLC and replayed"),
 "C14": (MC, "in the specification quantifiers visit map entries in ascending key order, so outcomes are functions; TLC enumerates quantifiers (4 binding modes, nested, key-only short-circuit bodies) over maps of 2..8 entries mixing T/F/E; the harness repeats each call r times on the real code (Go re-randomises map order on every range) and Rel.tla validates that all repetitions agree; Execute over maps likewise", "TLC-enumerated cases, repetition on the implementation, groups validated by TLC"),
 "C17": (MC, "spec/Api.tla Execute: for every (filter expression, container) TLC computes error / kept positions in order / result type (FilterLaws); the harness runs the real Execute and checks it against Evaluate on every element, the specified result, input unchanged, nil filter, idempotence and the E / not E partition", "Api.tla model of Filter.Execute enumerated by TLC and replayed"),
 "C18": (MC, "spec/Api.tla option folding (OptionLaws: commute, last wins, nil skipped): every option list of bounded length; per probe a meaning key erasing neutral settings; the harness builds a real evaluator per list and Rel.tla validates that lists with the same meaning give the same observations (first and third call); outcomes are compared with the folded configuration's reference outcome", "Api.tla option model enumerated by TLC; equivalence classes validated on the implementation"),
}
TODO = {
}
def main():
    props = [json.loads(l) for l in open(os.path.join(V, "properties.jsonl"))]
    checks, na = [], []
    for p in props:
        pid = p["id"]
        if pid in CHECKS:
            lvl, text, tech = CHECKS[pid]
            checks.append({"property_id": pid, "quick_cmd": "bin/check %s --tier quick" % pid, "thorough_cmd": "bin/check %s --tier thorough" % pid,
                           "evidence_file": "/verif/evidence/%s.json" % pid, "engine": ENGINE,
                           "replay_cmd_template": "cat {path}",
                           "level_claimed": {"category": lvl, "text": text, "design_ref": "DESIGN.md section 5, " + pid},
                           "level_note": "bounded universes (stated in the evidence file's rule); float readings and regexp outcomes enter the model as tables computed outside Go; pointerstructure v1.2.1 as modelled in Den.tla; TLC, the Go toolchain and reflect are trusted",
                           "technique": tech})
        else:
            na.append({"property_id": pid, "reason": TODO.get(pid, "check not built yet (work in progress; the specification module for it is planned in DESIGN.md)")})
    m = {"version": 1,
         "setup_cmd": "true",
         "hooks": {"guard": "verif", "enable": "the harness is built with `go build -tags verif` against /repo's working tree (replace directive)",
                   "baseline_off_cmd": "cd /repo && GOFLAGS=-mod=mod GOPROXY=off GOSUMDB=off GOTOOLCHAIN=local go test -vet=off -count=1 ./...",
                   "source_commits": ["ee37739"], "add_only": True},
         "engines": [{"name": ENGINE, "path": "/verif/bin/check", "serves_properties": sorted(CHECKS),
                      "kind_free_text": "TLA+ specification (spec/*.tla) checked and enumerated by TLC; Go harness (harness/) replays TLC's cases on the real code and records observation groups that TLC validates"}],
         "checks": checks, "not_applicable": na,
         "notes": "bin/check <ID> --tier quick|thorough; VERIF_SEED selects sampled sub-universes; exit 2 = infrastructure problem (never a violation)"}
    json.dump(m, open(os.path.join(V, "MANIFEST.json"), "w"), indent=1)
    print(len(checks), "checks,", len(na), "not applicable")
main()
