#!/usr/bin/env python3
"""C01 - Evaluate returns what the expression denotes.

TLC (spec/Cases.tla + Den.tla) enumerates expression trees over each world and prints the
outcome the reference semantics assigns; the harness replays every case on the real code."""
import json
import os
import random
import sys

sys.path.insert(0, os.path.dirname(os.path.abspath(__file__)))
import vlib  # noqa: E402
from vlib import match  # noqa: E402

WORLD_CFGS = {
    "scalars": [0, 2],
    "containers": [0, 4],
    "records": [0, 5],
    "json": [0, 3],
    "tagged": [0, 1, 12, 8],
    "wrapped": [0, 9, 10, 11, 15],
    "kinds": [0],
    "absent": [0, 6],
    "eq": [0],
}
DEPTH = {"kinds": 2, "absent": 3, "eq": 1, "scalars": 2, "containers": 2, "records": 3, "json": 3, "tagged": 3, "wrapped": 3}


def build_world(name, data, tier, rnd):
    docs = data["docs"]
    quick = tier == "quick"
    atoms, keys = vlib.atoms_for_docs(docs, DEPTH[name], rnd, per_path=5 if quick else None)
    # bodies for quantifiers: selectors rooted at the binding names
    body = [match(["v"], "==", "1"), match(["v"], "==", "a"), match(["v"], "!=", "b"), match(["k"], "==", "a"), match(["k"], "==", "0"),
            match(["v", "id"], "==", "1"), match(["v", "x"], "==", "1"), match(["v", "V"], "==", "2"), match(["v", "0"], "==", "1"),
            match(["v", "X"], "==", "1"), match(["v", "name"], "==", "n1"), match(["v", "Secret"], "==", "s3cr3t"),
            match(["v"], "in", "a"), match(["v"], "empty"), match(["k"], "matches", "^[a-z]$"), match(["top"], "==", "5")]
    if name == "records":
        # inner quantifiers rooted at the outer binding, re-using its name or not
        def coll(op, path, mode, n1, n2, e):
            return {"t": "coll", "op": op, "sel": {"ty": "bexpr", "path": path}, "mode": mode, "n1": n1, "n2": n2, "e": e, "val": "", "hv": False}
        body += [coll("any", ["v", "tags"], "default", "v", "", match(["v"], "==", "b")), coll("any", ["v", "tags"], "default", "t", "", match(["t"], "==", "b")),
                 coll("all", ["v", "attr"], "both", "k", "v", match(["v"], "!=", "zz")), coll("any", ["v"], "value", "", "v", match(["v"], "==", "2")),
                 coll("any", ["v", "tags"], "both", "k", "v", {"t": "and", "l": match(["v"], "==", "b"), "r": match(["k"], "==", "1"), "val": "", "hv": False, "mode": "", "n1": "", "n2": ""})]
    b0 = len(atoms)
    atoms += body
    colls = []
    cpaths = [k for k in keys if len(k) <= 2]
    rnd.shuffle(cpaths)
    if name == "records":
        cpaths = [("recs",), ("grid",)] + [k for k in cpaths if k not in (("recs",), ("grid",))]
    for key in cpaths[: (3 if quick else 10)]:
        for op in ("any", "all"):
            for mode, n1, n2 in (("default", "v", ""), ("index", "k", ""), ("value", "", "v"), ("both", "k", "v")):
                colls.append({"op": op, "sel": {"ty": "bexpr", "path": list(key)}, "mode": mode, "n1": n1, "n2": n2})
    colls.append({"op": "any", "sel": {"ty": "bexpr", "path": list(cpaths[0])}, "mode": "both", "n1": "v", "n2": "v"})
    idx = list(range(b0))
    rnd.shuffle(idx)
    combo = sorted(idx[:(10 if quick else 40)] + list(range(b0, len(atoms))))
    return vlib.make_world([name], docs, data["cfgs"], WORLD_CFGS[name], atoms, combo, colls, 3)


def main():
    chk = vlib.Check("C01")
    rnd = random.Random(chk.seed)
    worlds = ["scalars", "containers", "records", "json", "tagged", "wrapped"]
    if os.environ.get("VERIF_WORLDS"):
        worlds = os.environ["VERIF_WORLDS"].split(",")
    by = {}
    skipped = 0
    for wn in worlds:
        data = json.loads(vlib.harness(["data", "-worlds", wn]).stdout)
        world = build_world(wn, data, chk.tier, rnd)
        res = vlib.run_world(chk, "c01-" + wn, world, replay_args=["-sels", "auto,pointer"] if wn in ("containers", "json") else (["-lits", "auto,bare"] if wn == "scalars" else []))
        chk.cov["evaluations"] += res["evals"]
        skipped += res["skipped"]
        for k, v in res["byoutcome"].items():
            by[k] = by.get(k, 0) + v
        for m in res["mismatches"]:
            if m.get("text") == "...more":
                continue
            chk.violation({"world": wn, "expr": m["text"], "doc": m["doc"], "cfg": m["cfg"], "spec": m["want"],
                           "impl": m["got"]["o"], "detail": m["got"].get("err") or m["got"].get("panic", "")})
        for s in res["samples"]:
            chk.sample(s)
        chk.cov["traces_validated_against_impl"] += res["cases"] - res["skipped"]
    # code -> spec: random reflect-built documents and expressions, validated by TLC
    rec, bad = vlib.run_random(chk, "c01-random", chk.seed, 60 if chk.tier == "quick" else 1500, 60)
    for b in bad:
        chk.violation({"world": "random", **b})
    for k, v in rec["by"].items():
        by[k] = by.get(k, 0) + v
    chk.cov["distinct_nontrivial"] = by.get("T", 0) + by.get("F", 0)
    chk.notes["rule"] = ("every tree TLC builds (all atoms singly; <=3-node combinations over a seeded pool; quantifier shells in "
                         "all four binding modes) x every configuration and document of the world; non-trivial = the real "
                         "evaluation returned true or false (not an error)")
    chk.notes["by_outcome"] = by
    chk.notes["skipped_trees"] = skipped
    chk.notes["exhaustive"] = True
    chk.assumptions += ["float readings come from tools/floattab.py (exact rational arithmetic)",
                        "regular expression outcomes come from a table computed with Python's re on patterns where it agrees with RE2",
                        "pointerstructure v1.2.1 behaves as modelled in Den.tla"]
    return chk.finish()


if __name__ == "__main__":
    vlib.main(main, "C01")
