#!/usr/bin/env python3
"""C01 - Evaluate returns what the expression denotes.

TLC (spec/Cases.tla + Den.tla) enumerates expression trees over each world and prints the
outcome the reference semantics assigns; the harness replays every case on the real code."""
import json
import os
import random
import sys

sys.path.insert(0, os.path.dirname(os.path.abspath(__file__)))
import vlib  # noqa: E402
from vlib import match  # noqa: E402

GENERIC = ["true", "0", "1", "-5", "5", "0x5", "abc", "", "1.5", "hello", "99999999999999999999", "ell",
           "^h.*o$", "(a|b", "l{2}", "T", "0b101", "1_0", "-0", "1e400", "NaN", "k", "x"]
OPS_V = ["==", "!=", "in", "notin", "matches", "notmatches"]
OPS_E = ["empty", "notempty"]

WORLD_CFGS = {
    "scalars": [0, 2],
    "containers": [0, 4],
    "records": [0, 5],
    "json": [0, 3],
    "tagged": [0, 1, 12, 8],
    "wrapped": [0, 9, 10, 11],
}


def build_world(name, data, tier, rnd):
    docs = data["docs"]
    paths = []
    depth = 3 if name in ("records", "json", "tagged", "wrapped") else 2
    for d in docs:
        vlib.walk_paths(d["av"], [], depth, paths)
    # group the literal texts worth trying by path
    bypath = {}
    for p, node in paths:
        if not p:
            continue
        key = tuple(p)
        s = bypath.setdefault(key, set())
        if node is not None:
            s.update(vlib.own_text(node))
            if node["k"] == "list":
                for e in node["v"][:3]:
                    s.update(vlib.own_text(e))
            if node["k"] == "map":
                for e in node["v"][:2]:
                    kt = vlib.key_text(e["key"])
                    if kt is not None:
                        s.add(kt)
    generic = GENERIC if tier == "thorough" else GENERIC[:15]
    atoms = []
    for key in sorted(bypath):
        lits = list(generic) + sorted(bypath[key] - set(generic))
        for op in OPS_V:
            for l in lits:
                atoms.append(match(key, op, l))
        for op in OPS_E:
            atoms.append(match(key, op))
    # bodies for quantifiers: selectors rooted at the binding names
    body = []
    for root in (["v"], ["k"], ["v", "id"], ["v", "x"], ["v", "0"], ["k", "x"], ["v", "X"], ["v", "Secret"], ["v", "name"]):
        for op, l in (("==", "1"), ("==", "a"), ("!=", "b"), ("in", "a"), ("empty", ""), ("matches", "^[a-z]$"), ("==", "0")):
            body.append(match(root, op, l if op != "empty" else ""))
    body.append(match(["top"], "==", "5"))
    b0 = len(atoms)
    atoms += body
    # quantifier shells over every collection-ish path (and a few that are not)
    colls = []
    cpaths = [k for k in sorted(bypath) if len(k) <= 2]
    rnd.shuffle(cpaths)
    for key in cpaths[: (2 if tier == "quick" else 8)]:
        for op in ("any", "all"):
            for mode, n1, n2 in (("default", "v", ""), ("index", "k", ""), ("value", "", "v"), ("both", "k", "v")):
                colls.append({"op": op, "sel": {"ty": "bexpr", "path": list(key)}, "mode": mode, "n1": n1, "n2": n2})
    colls.append({"op": "any", "sel": {"ty": "bexpr", "path": list(cpaths[0])}, "mode": "both", "n1": "v", "n2": "v"})
    # combination pool: a sample of ordinary atoms plus the quantifier bodies
    idx = list(range(b0))
    rnd.shuffle(idx)
    ncombo = 14 if tier == "quick" else 40
    combo = sorted(idx[:ncombo] + list(range(b0, len(atoms))))
    maxn = 3
    cfgs_all = data["cfgs"]
    return vlib.make_world([name], docs, cfgs_all, WORLD_CFGS[name], atoms, combo, colls, maxn)


def main():
    chk = vlib.Check("C01")
    rnd = random.Random(chk.seed)
    worlds = ["scalars", "containers", "records", "json", "tagged", "wrapped"]
    if os.environ.get("VERIF_WORLDS"):
        worlds = os.environ["VERIF_WORLDS"].split(",")
    total_evals = 0
    by = {}
    skipped = 0
    nontrivial = set()
    for wn in worlds:
        p = vlib.harness(["data", "-worlds", wn])
        data = json.loads(p.stdout)
        world = build_world(wn, data, chk.tier, rnd)
        wd = vlib.sub("c01-" + wn)
        cfg = 'SPECIFICATION Spec\nCONSTANT WorldFile = "world.json"\nINVARIANT BuilderOK\nCHECK_DEADLOCK FALSE\n'
        r = vlib.run_tlc("Cases", cfg, wd, files={"world.json": world}, timeout=3000)
        chk.add_tlc(r)
        if r.violation:
            raise vlib.Infra("model invariant %s violated in world %s" % (r.violation, wn))
        with open(os.path.join(wd, "cases.ndjson"), "w") as fh:
            for c in r.cases:
                fh.write(json.dumps(c) + "\n")
        vlib.harness(["replay", "-world", os.path.join(wd, "world.json"), "-cases", os.path.join(wd, "cases.ndjson"),
                      "-out", os.path.join(wd, "replay.json")])
        res = json.load(open(os.path.join(wd, "replay.json")))
        vlib.log("world %s: %d atoms, %d trees, %d evaluations, outcomes %s, skipped %d %s" % (
            wn, len(world["atoms"]), res["cases"], res["evals"], res["byoutcome"], res["skipped"], res["skipwhy"]))
        total_evals += res["evals"]
        skipped += res["skipped"]
        for k, v in res["byoutcome"].items():
            by[k] = by.get(k, 0) + v
        for m in res["mismatches"] or []:
            if m.get("text") == "...more":
                continue
            chk.violation({"world": wn, "expr": m["text"], "doc": m["doc"], "cfg": m["cfg"], "spec": m["want"],
                           "impl": m["got"]["o"], "detail": m["got"].get("err") or m["got"].get("panic", "")})
        for s in res["samples"] or []:
            chk.sample(s)
        chk.cov["traces_validated_against_impl"] += res["cases"] - res["skipped"]
        if res["evals"] == 0:
            raise vlib.Infra("world %s: nothing was evaluated" % wn)
    chk.cov["evaluations"] = total_evals
    chk.cov["distinct_nontrivial"] = by.get("T", 0) + by.get("F", 0)
    chk.notes["rule"] = ("every tree TLC builds (all atoms singly; <=3-node combinations over a seeded pool; quantifier shells in "
                         "all four binding modes) x every configuration and document of the world; non-trivial = the real "
                         "evaluation returned true or false (not an error)")
    chk.notes["by_outcome"] = by
    chk.notes["skipped_trees"] = skipped
    chk.notes["exhaustive"] = True
    chk.assumptions += ["float readings come from tools/floattab.py (exact rational arithmetic)",
                        "regular expression outcomes come from a table computed with Python's re on patterns where it agrees with RE2",
                        "pointerstructure v1.2.1 behaves as modelled in Den.tla"]
    return chk.finish()


if __name__ == "__main__":
    vlib.main(main, "C01")
