#!/usr/bin/env python3
"""C18 - options act only on their own aspect, in any order, on every Evaluate.

spec/Api.tla (mode "opts"): TLC enumerates every option list of up to k options over {WithTagName, WithHookFn,
WithUnknownValue, WithMaxExpressions, nil}, folds it like options.getOpts (invariant OptionLaws: distinct options
commute, the last of repeated options wins, nil is skipped) and computes, per probe (expression, document), the
outcome under the folded configuration and a "meaning key" in which neutral settings are erased (identity hook,
unknown value when the probe's selector resolves, budget 0 or >= the parse's step count).  The harness creates a real
evaluator from each option list, evaluates every probe (first and third call), and Rel.tla checks that all lists with
the same meaning key gave the same observation; the replay compares with the specified outcome."""
import json, os, sys
sys.path.insert(0, os.path.dirname(os.path.abspath(__file__)))
import vlib
from vlib import match


def main():
    chk = vlib.Check("C18")
    quick = chk.tier == "quick"
    worlds = ["tagged", "wrapped", "absent"]
    data = json.loads(vlib.harness(["data", "-worlds", ",".join(worlds)]).stdout)
    docs = data["docs"]
    idx = {d["name"]: i + 1 for i, d in enumerate(docs)}
    exprs = [match(["jren"], "==", "renamed"), match(["ren"], "==", "renamed"), match(["Hidden"], "==", "s3cr3t"),   # tag name
             match(["w", "a"], "==", "1"), match(["m", "w", "k"], "==", "1"), match(["w", "zz"], "!=", "1"),           # hook
             match(["m", "zz"], "==", "unk"), match(["zz"], "==", "unk"), match(["st", "Zz"], "empty"),                # unknown value
             match(["s"], "==", "scalar"),                                                                             # resolves: neutral
             match(["n"], "==", "unk"), match(["m", "nilv"], "empty"),                                                 # resolves to nil: still resolves
             dict(match(["a"], "==", "1"), src="(((((a == 1)))))"), match(["ws"], "==", "str"), match(["pw", "0"], "==", "1"),
             {"t": "coll", "op": "any", "sel": {"ty": "bexpr", "path": ["List"]}, "mode": "default", "n1": "v", "n2": "",
              "e": match(["v", "sec"], "==", "s3cr3t"), "val": "", "hv": False},
             match(["nw"], "==", "dflt"), match(["opt", "W"], "==", "dflt"), match(["opt", "I"], "empty"), match(["pl", "0"], "!=", "dflt"), match(["opt", "S"], "==", "set")]   # hook that replaces nil
    probes = [{"e": 1, "d": idx["tagged"]}, {"e": 2, "d": idx["tagged"]}, {"e": 3, "d": idx["tagged"]}, {"e": 16, "d": idx["tagged"]},
              {"e": 4, "d": idx["wrapped"]}, {"e": 5, "d": idx["wrapped"]}, {"e": 6, "d": idx["wrapped"]},
              {"e": 7, "d": idx["absent"]}, {"e": 8, "d": idx["absent"]}, {"e": 9, "d": idx["absent"]}, {"e": 10, "d": idx["absent"]},
              {"e": 6, "d": idx["absent"]}, {"e": 11, "d": idx["absent"]}, {"e": 12, "d": idx["absent"]},
              {"e": 13, "d": idx["absent"]}, {"e": 14, "d": idx["wrapped"]}, {"e": 15, "d": idx["wrapped"]},
              {"e": 17, "d": idx["wrapped"]}, {"e": 18, "d": idx["wrapped"]}, {"e": 19, "d": idx["wrapped"]}, {"e": 20, "d": idx["wrapped"]}, {"e": 21, "d": idx["wrapped"]},
              {"e": 11, "d": idx["absent"]}]
    wd = vlib.sub("c18")
    with open(os.path.join(wd, "exprs.json"), "w") as fh:
        json.dump(exprs, fh)
    steps = json.loads(vlib.harness(["steps", "-exprs", os.path.join(wd, "exprs.json")]).stdout)
    if min(steps) < 2:
        raise vlib.Infra("could not measure parser steps: %s" % steps)
    unk = {c["name"]: c["unknown"] for c in data["cfgs"]}
    options = [{"o": "tag", "v": "bexpr", "n": ""}, {"o": "tag", "v": "json", "n": ""},
               {"o": "hook", "v": "id", "n": ""}, {"o": "hook", "v": "unwrap", "n": ""}, {"o": "hook", "v": "none", "n": ""}, {"o": "hook", "v": "nildef", "n": ""},
               {"o": "unknown", "v": unk["unk-str"], "n": "str"}, {"o": "unknown", "v": unk["unk-empty"], "n": "empty"}, {"o": "unknown", "v": unk["unk-nil"], "n": "nil"},
               {"o": "max", "v": 0, "n": ""}, {"o": "max", "v": steps[0] - 1, "n": ""}, {"o": "max", "v": max(steps), "n": ""}, {"o": "max", "v": 2 ** 30, "n": ""},
               {"o": "nil", "v": 0, "n": ""}]
    if not quick:
        options += [{"o": "tag", "v": "", "n": ""}, {"o": "max", "v": steps[0], "n": ""}]
    world = vlib.api_world("opts", worlds, docs, data["cfgs"], [0], exprs, 3 if quick else 4, options=options, probes=probes, steps=steps)
    world["docsel"] = []
    summ, bad = vlib.run_api(chk, "c18", world, invariants=("OptionLaws",))
    chk.cov["evaluations"] += summ["evals"]
    chk.cov["distinct_nontrivial"] = summ["groups"]
    for g in bad:
        chk.violation({"law": g["info"].get("law"), "group": {k: v for k, v in g.items() if k != "info"}, "info": g["info"]})
    for m in summ["specmismatch"]:
        chk.violation({"law": "outcome under the folded configuration", **m})
    for s in summ["samples"][:4]:
        chk.sample(s)
    chk.notes["parser_steps_of_probes"] = steps
    chk.notes["rule"] = ("all option lists of length <= %d over %d options x %d probes, each probe sensitive to one aspect (tag name, hook, "
                         "unknown value, budget) or to none; non-trivial = (probe, meaning) classes compared" % (world["maxlen"], len(options), len(probes)))
    chk.notes["exhaustive"] = True
    return chk.finish()


if __name__ == "__main__":
    vlib.main(main, "C18")
