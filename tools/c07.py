#!/usr/bin/env python3
"""C07 - dotted, bracket-indexed and JSON-Pointer spellings of a path are interchangeable.

TLC enumerates atoms and quantifiers over every structural path (LawSpell: the reference outcome does not depend on
the selector type); the harness renders each tree in every admissible spelling (dotted, ["x"], [`x`], "/a/b"), parses
and evaluates each with the real code; Rel.tla checks that the spellings of one tree agree."""
import json, os, random, sys
sys.path.insert(0, os.path.dirname(os.path.abspath(__file__)))
import vlib
from vlib import match

WORLDS = [("containers", [0], 2), ("records", [0], 3), ("json", [0], 3), ("tagged", [0, 1], 2)]


def main():
    chk = vlib.Check("C07")
    rnd = random.Random(chk.seed)
    quick = chk.tier == "quick"
    nontrivial = 0
    for wn, cfgsel, depth in WORLDS:
        data = json.loads(vlib.harness(["data", "-worlds", wn]).stdout)
        atoms, keys = vlib.atoms_for_docs(data["docs"], depth, rnd, per_path=2 if quick else 5, ops_v=["==", "in", "matches"], ops_e=["empty"])
        # selectors used as the quantified collection and inside bodies (alias-rooted selectors keep their first part)
        body = [match(["v"], "==", "1"), match(["v", "x"], "==", "1"), match(["v", "0"], "==", "1"), match(["v", "V"], "==", "2"),
                match(["v", "id"], "!=", "2"), match(["v", "attr", "k"], "==", "v"), match(["k"], "==", "a"),
                match(["v"], "==", "slash"), match(["v"], "==", "tilde"), match(["v"], "==", "t2"), match(["v"], "==", "bond"), match(["k"], "==", "a/b"), match(["v", "y"], "==", "nested")]
        b0 = len(atoms)
        atoms += body
        allp = []
        for d in data["docs"]:
            vlib.walk_paths(d["av"], [], depth, allp, False)

        def is_coll(node):
            nd = node["to"] if node and node["k"] == "ptr" else node
            return bool(nd) and nd["k"] in ("list", "map")

        def odd(node):
            j = json.dumps(node)[:3000]
            return "~" in j or "a/b" in j or '"007"' in j
        cp = sorted({tuple(p) for p, node in allp if p and is_coll(node)})
        rnd.shuffle(cp)
        first = sorted({tuple(p) for p, node in allp if p and is_coll(node) and odd(node)})
        cpaths = first + [k for k in cp if k not in first]
        colls = []
        # collections whose keys need escaping in one of the spellings: every binding mode (nothing left to the seed)
        for key in first[:(8 if quick else 30)]:
            for op, mode, n1, n2 in (("any", "default", "v", ""), ("all", "value", "", "v"), ("any", "both", "k", "v")):
                colls.append({"op": op, "sel": {"ty": "bexpr", "path": list(key)}, "mode": mode, "n1": n1, "n2": n2})
        for key in [k for k in cpaths if k not in first][:(8 if quick else 30)]:
            mode = rnd.choice(["default", "value", "both"])
            n1, n2 = {"default": ("v", ""), "value": ("", "v"), "both": ("k", "v")}[mode]
            colls.append({"op": rnd.choice(["any", "all"]), "sel": {"ty": "bexpr", "path": list(key)}, "mode": mode, "n1": n1, "n2": n2})
        combo = list(range(b0, len(atoms)))
        if wn == "containers":
            # two selectors in one expression whose dotted texts coincide although their paths differ
            def both(p1, v1, p2, v2):
                return {"t": "and", "l": match(p1, "==", v1), "r": match(p2, "==", v2), "val": "", "hv": False, "mode": "", "n1": "", "n2": ""}
            atoms += [both(["odd", "x.y"], "dotted", ["odd", "x", "y"], "nested"), both(["odd", "x", "y"], "nested", ["odd", "x.y"], "dotted"),
                      both(["odd", "c/d"], "slashed", ["odd", "c", "d"], "nested2"), both(["odd", "c", "d"], "nested2", ["odd", "c/d"], "slashed"),
                      both(["odd", "a/b"], "slash", ["odd", "a~1b"], "tilde")]
            # parts are matched exactly: case and blanks matter (judged against the reference outcome below)
            exact = [match(["odd", "upper"], "==", "only-capitalised"), match(["odd", "UPPER"], "empty"), match(["odd", "trim "], "==", "exact"),
                     match(["odd", " trim"], "!=", "exact"), match(["odd", "sp"], "==", "spaces"), match(["odd", "KEY"], "==", "upper"), match(["Odd", "key"], "==", "lower")]
            e0 = len(atoms)
            atoms += exact
        world = vlib.make_world([wn], data["docs"], data["cfgs"], cfgsel, atoms, combo, colls, 2)
        tag = "c07-" + wn
        summ, bad = vlib.run_relate(chk, tag, world, "c07", invariants=("BuilderOK", "LawSpell"), module="Laws")
        chk.cov["evaluations"] += summ["evals"]
        for l in open(os.path.join(vlib.sub(tag), "groups.ndjson")):
            g = json.loads(l)
            if g["rel"] == "same" and any(o in "TF" for o in g["obs"]):
                nontrivial += 1
        for g in bad:
            chk.violation({"law": "spellings agree", "group": {k: v for k, v in g.items() if k != "info"}, "info": g["info"]})
        for s in summ["samples"][:2]:
            chk.sample(s)
        if wn == "containers":
            res = vlib.run_world(chk, tag + "-exact", world, module="Laws", invariants=("BuilderOK", "LawSpell"))
            texts = {json.dumps(a["sel"]["path"]) for a in exact}
            for m in res["mismatches"]:
                if m.get("text") != "...more" and m["tree"].get("sel") and json.dumps(m["tree"]["sel"]["path"]) in texts:
                    chk.violation({"law": "path parts are matched exactly (case, blanks)", "expr": m["text"], "spec": m["want"], "impl": m["got"]["o"]})
    chk.cov["distinct_nontrivial"] = nontrivial
    chk.notes["rule"] = ("every structural path of the worlds (keys with '/', '~', blanks, leading zeros, case variants, empty; list indexes) "
                         "as match selector, as quantified collection and inside bodies, in every admissible pair of spellings; "
                         "non-trivial = some spelling evaluated to true or false")
    return chk.finish()


if __name__ == "__main__":
    vlib.main(main, "C07")
