#!/usr/bin/env python3
"""C05 - absent map keys follow the documented table; the unknown value substitutes exactly.

TLC enumerates selectors of depth 1-4 that are absent at the leaf / an intermediate step / the root under parents of
every shape, x eight operators x quantifiers x configurations, classifying each selector with the reference walk
(ok / absent-from-a-map / absent-otherwise / error).  The harness evaluates the real code; Rel.tla checks
 - the documented eight-entry table and all/any over an absent collection,
 - that an absent struct field, intermediate or top-level key is an error,
 - that under WithUnknownValue(v) the expression behaves exactly like the same expression with a selector that
   resolves to v, and is unaffected when its selector resolves,
 - the same inside quantifier bodies (quantifier = fold of the unrolled bodies, under unknown-value configurations)."""
import json, os, random, sys
sys.path.insert(0, os.path.dirname(os.path.abspath(__file__)))
import vlib
from vlib import match

OPS_V = ["==", "!=", "in", "notin", "matches", "notmatches"]
CFGS = [0, 2, 3, 4, 5, 6, 7, 13, 14, 10, 8]   # default first; unknown values of each kind; the unwrap hook


def main():
    chk = vlib.Check("C05")
    rnd = random.Random(chk.seed)
    quick = chk.tier == "quick"
    data = json.loads(vlib.harness(["data", "-worlds", "absent"]).stdout)
    paths = []
    vlib.walk_paths(data["docs"][0]["av"], [], 3, paths, True)
    keys = sorted({tuple(p) for p, n in paths if p and not p[0].startswith("u_")})
    extra = [("m", "inner", "zz"), ("m", "inner", "zz", "deeper"), ("m", "zz", "b"), ("m", "l", "0", "zz"), ("m", "l", "0", "c"), ("m", "l", "5"),
             ("st", "M", "zz"), ("st", "PM", "zz"), ("st", "Zz"), ("pst", "M", "zz"), ("pst", "PM", "zz"), ("w", "zz"), ("w", "Inner", "zz"), ("w", "a"),
             ("zz",), ("zz", "a"), ("n", "zz"), ("np", "zz"), ("s", "zz"), ("mi", "2"), ("mi", "x"), ("mif", "y"), ("pm", "zz"), ("nilm", "zz"), ("em", "zz")]
    keys = sorted(set(keys) | set(extra))
    lits = ["unk", "", "0", "1", "x", "true", "2.5", "k", "^u", "("]
    atoms = []
    for k in keys:
        for op in OPS_V:
            for l in (lits if not quick else rnd.sample(lits, 4) + ["unk"]):
                atoms.append(match(k, op, l))
        atoms.append(match(k, "empty"))
        atoms.append(match(k, "notempty"))
    body = [match(["v"], "==", "1"), match(["v", "zz"], "==", "unk"), match(["v", "zz"], "notempty"), match(["v", "a"], "!=", "1"), match(["zz"], "==", "unk"),
            match(["m", "zz"], "==", "unk"), match(["v", "zz", "q"], "==", "unk"), match(["v", "c"], "==", "3")]
    b0 = len(atoms)
    atoms += body
    cpaths = [k for k in keys if len(k) <= 3]
    rnd.shuffle(cpaths)
    colls = []
    for k in cpaths[:(16 if quick else 60)] + [("m", "l"), ("l",), ("m",), ("m", "zz"), ("zz",), ("st", "M", "zz")]:
        for op in ("any", "all"):
            colls.append({"op": op, "sel": {"ty": "bexpr", "path": list(k)}, "mode": "value", "n1": "", "n2": "v"})
            colls.append({"op": op, "sel": {"ty": "bexpr", "path": list(k)}, "mode": "default", "n1": "v", "n2": ""})
    # every binding mode over absent / empty / present collections, also the same name for index and value (an error only when an
    # element gets bound)
    for k in [("m", "zz"), ("zz",), ("m",), ("em",), ("l",), ("st", "M", "zz"), ("le",)]:
        for op in ("any", "all"):
            colls.append({"op": op, "sel": {"ty": "bexpr", "path": list(k)}, "mode": "both", "n1": "k", "n2": "k"})
            colls.append({"op": op, "sel": {"ty": "bexpr", "path": list(k)}, "mode": "both", "n1": "k", "n2": "v"})
            colls.append({"op": op, "sel": {"ty": "bexpr", "path": list(k)}, "mode": "index", "n1": "v", "n2": ""})
    world = vlib.make_world(["absent"], data["docs"], data["cfgs"], CFGS, atoms, list(range(b0, len(atoms))), colls, 2,
                            want_parts=True, want_classes=True)
    classes = {}
    nontrivial = 0
    for mode in ("c05", "c06"):
        summ, bad = vlib.run_relate(chk, "c05-" + mode, world, mode)
        chk.cov["evaluations"] += summ["evals"]
        for l in open(os.path.join(vlib.sub("c05-" + mode), "groups.ndjson")):
            g = json.loads(l)
            c = g["info"].get("class")
            if c:
                classes[c] = classes.get(c, 0) + 1
                if c in ("absent", "nf"):
                    nontrivial += 1
        for g in bad:
            chk.violation({"law": g["info"].get("law", g["rel"]), "group": {k: v for k, v in g.items() if k != "info"}, "info": g["info"]})
        for s in summ["samples"][:3]:
            chk.sample(s)
    chk.cov["distinct_nontrivial"] = nontrivial
    chk.notes["groups_by_selector_class"] = classes
    chk.notes["rule"] = ("selector paths of depth 1-4 over a document with maps, named / nil / empty / int-keyed / interface-keyed maps, structs, "
                         "pointers to maps, lists, scalars, nil and a hook-unwrapped map; absent at leaf, intermediate and root; x 8 operators x "
                         "quantifiers x {no unknown value, unknown string/empty/int/nil/list/map/bool/float, unwrap hook, json tag + unknown string}; non-trivial = the "
                         "selector really is absent (class absent or nf)")
    if classes.get("absent", 0) == 0 or classes.get("nf", 0) == 0:
        raise vlib.Infra("no absent selector was exercised")
    return chk.finish()


if __name__ == "__main__":
    vlib.main(main, "C05")
