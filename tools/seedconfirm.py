#!/usr/bin/env python3
"""Confirm candidate seeded changes: each must apply, compile, keep the existing test suite green, and come with a
demonstration that fails with the change and passes without it. Confirmed ones are kept under /verif/seeded/<id>/."""
import glob, json, os, re, shutil, subprocess, sys
ENV = dict(os.environ, GOFLAGS="-mod=mod", GOPROXY="off", GOSUMDB="off", GOTOOLCHAIN="local")
WT = "/tmp/wt/confirm"
def sh(cmd, cwd=WT, timeout=900):
    p = subprocess.run(cmd, shell=True, cwd=cwd, env=ENV, capture_output=True, text=True, timeout=timeout)
    return p.returncode, (p.stdout + p.stderr)
def clean():
    sh("git checkout -q -- . && git clean -fdq")
def demo_files(d):
    return [f for f in glob.glob(d + "/*") if os.path.basename(f) not in ("patch.diff", "meta.json")]
def place(files):
    placed = []
    for f in files:
        if f.endswith("_test.go"):
            pkg = re.search(r"^package (\w+)", open(f).read(), re.M).group(1)
            dest = os.path.join(WT, "grammar" if pkg.startswith("grammar") else "", os.path.basename(f))
            shutil.copy(f, dest); placed.append(dest)
    return placed
def run_demo(meta, race):
    rc, out = sh("go test -count=1 %s -run 'ZZ|Demo|zz' ./... 2>&1" % ("-race" if race else ""), timeout=1800)
    return rc, out
def main():
    if not os.path.isdir(WT):
        subprocess.check_call(["git", "-C", "/repo", "worktree", "add", "-q", "--detach", WT, os.environ.get("SEED_BASE", "ee37739")])
    results = {}
    for d in sorted(glob.glob(os.environ.get("SEED_GLOB", "/tmp/seed/C*/[ab]"))):
        pid, ab = d.split("/")[-2], d.split("/")[-1]
        name = pid + ab
        if len(sys.argv) > 1 and name not in sys.argv[1:]:
            continue
        clean()
        meta = json.load(open(d + "/meta.json")) if os.path.exists(d + "/meta.json") else {}
        race = "-race" in json.dumps(meta)
        files = demo_files(d)
        tests = [f for f in files if f.endswith("_test.go")]
        breaks = pid if re.match(r"C\d\d$", pid) else str(meta.get("property", ""))[:3]
        r = {"property": breaks, "race": race}
        # demo on the unchanged tree
        place(files)
        rc0, out0 = run_demo(meta, race)
        clean()
        rc, out = sh("git apply %s/patch.diff" % d)
        if rc != 0:
            r["status"] = "patch does not apply: " + out[-300:]; results[name] = r; continue
        rc, out = sh("go build ./... && go vet ./... >/dev/null 2>&1; go test -count=1 ./... 2>&1")
        r["suite_passes_with_change"] = rc == 0
        place(files)
        rc1, out1 = run_demo(meta, race)
        r["demo_passes_without"] = rc0 == 0
        r["demo_fails_with"] = rc1 != 0
        r["has_test_demo"] = bool(tests)
        ok = r["suite_passes_with_change"] and r["demo_passes_without"] and r["demo_fails_with"] and tests
        r["status"] = "confirmed" if ok else "REJECTED"
        if not ok:
            r["out0"] = out0[-600:]; r["out1"] = out1[-600:]
        results[name] = r
        clean()
        if ok:
            dest = "/verif/seeded/" + name
            os.makedirs(dest, exist_ok=True)
            shutil.copy(d + "/patch.diff", dest)
            for f in files:
                shutil.copy(f, dest)
            m = dict(meta)
            m.update({"breaks": breaks, "base_commit": os.environ.get("SEED_BASE", "ee37739"), "confirmed_by": "tools/seedconfirm.py: patch applied to a scratch worktree of /repo; "
                      "`go test -count=1 ./...` (existing suite) passes with the change; the demonstration test passes on the unchanged tree and fails with the change" + (" (run with -race)" if race else "")})
            json.dump(m, open(dest + "/meta.json", "w"), indent=1)
        print(name, r["status"], {k: v for k, v in r.items() if k not in ("out0", "out1", "status")}, flush=True)
        if not ok:
            print("   out0:", r.get("out0", "")[-300:].replace("\n", " | "))
            print("   out1:", r.get("out1", "")[-300:].replace("\n", " | "))
    clean()
if __name__ == "__main__":
    main()
