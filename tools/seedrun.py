#!/usr/bin/env python3
"""Run registered checks against a seeded change: apply /verif/seeded/<name>/patch.diff to /repo, run, undo.
usage: seedrun.py <seedname> <CHECK-ID> [<CHECK-ID>...]   (env VERIF_TIER, VERIF_WORLDS passed through)"""
import os, subprocess, sys, time
name = sys.argv[1]
checks = sys.argv[2:]
patch = "/verif/seeded/%s/patch.diff" % name
if not os.path.exists(patch):
    patch = "/tmp/seed/%s/%s/patch.diff" % (name[:3], name[3:])
dirty = subprocess.run("git -C /repo status --porcelain", shell=True, capture_output=True, text=True).stdout.strip()
assert not dirty, "/repo is dirty: " + dirty
subprocess.check_call(["git", "-C", "/repo", "apply", patch])
try:
    for c in checks:
        t = time.time()
        p = subprocess.run(["/verif/bin/check", c, "--tier", os.environ.get("VERIF_TIER", "quick")], capture_output=True, text=True, cwd="/verif")
        lines = [l for l in p.stdout.splitlines() if l.startswith(("VIOLATION", "OK", "KNOWN"))]
        print("%s on %s: exit %d %.0fs %s" % (c, name, p.returncode, time.time() - t, " ; ".join(lines)[:300]), flush=True)
        if p.returncode == 2:
            print(p.stderr[-1500:])
        elif p.returncode == 1:
            v = [l for l in p.stderr.splitlines() if l.startswith("violation:")]
            print("   ", (v[0] if v else "")[:400])
finally:
    subprocess.check_call("git -C /repo checkout -- . && git -C /repo clean -fdq", shell=True)
