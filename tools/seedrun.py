#!/usr/bin/env python3
"""Run checks against a seeded change without disturbing /repo or /verif: a scratch git worktree of /repo gets the patch,
a snapshot copy of /verif's machinery runs the checks with VERIF_REPO pointing at it, and both are removed afterwards.
usage: seedrun.py <seedname|clean> <CHECK-ID> [<CHECK-ID>...]   (env VERIF_TIER etc. passed through)
(The registered commands themselves always run against /repo; `git -C /repo apply` + `git checkout -- .` gives the same result.)"""
import os, shutil, subprocess, sys, tempfile, time
name = sys.argv[1]
checks = sys.argv[2:]
base = tempfile.mkdtemp(prefix="sr-%s-" % name.replace(":", "-"))
repo = os.path.join(base, "repo")
snap = os.path.join(base, "verif")
at = name.split(":", 1)[1] if name.startswith("commit:") else "HEAD"
subprocess.check_call(["git", "-C", "/repo", "worktree", "add", "-q", "--detach", repo, at])
try:
    if name != "clean" and not name.startswith("commit:"):
        patch = "/verif/seeded/%s/patch.diff" % name
        subprocess.check_call(["git", "-C", repo, "apply", patch])
    os.makedirs(snap)
    for d in ("tools", "spec", "harness", "bin"):
        shutil.copytree(os.path.join("/verif", d), os.path.join(snap, d), ignore=shutil.ignore_patterns("__pycache__"))
    for f in ("known_findings.jsonl",):
        shutil.copy(os.path.join("/verif", f), snap)
    env = dict(os.environ, VERIF_REPO=repo, VERIF_SCRATCH=base)
    for c in checks:
        t = time.time()
        p = subprocess.run([os.path.join(snap, "bin/check"), c, "--tier", os.environ.get("VERIF_TIER", "quick")], capture_output=True, text=True, cwd=snap, env=env)
        lines = [l for l in p.stdout.splitlines() if l.startswith(("VIOLATION", "OK", "KNOWN"))]
        print("%s on %s: exit %d %.0fs %s" % (c, name, p.returncode, time.time() - t, " ; ".join(lines)[:260]), flush=True)
        if p.returncode == 2:
            print(p.stderr[-500:])
        elif p.returncode == 1:
            v = [l for l in p.stderr.splitlines() if l.startswith("violation:")]
            print("   ", (v[0] if v else p.stderr[-300:])[:420])
finally:
    subprocess.call(["git", "-C", "/repo", "worktree", "remove", "--force", repo])
    shutil.rmtree(base, ignore_errors=True)
