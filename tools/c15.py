#!/usr/bin/env python3
"""C15 - the parser accepts exactly the bexpr language and builds the prescribed AST.

Reference: spec/Peg.tla (the PEG semantics with ordered choice, predicates, labels, error productions and the
semantic actions) run on spec/grammar_frozen.json, a hand-reviewed transcription of the grammar that is never
regenerated from the tree under test.  TLC enumerates every sequence of up to k tokens of the full token alphabet, with
and without separating blanks, plus renderings of random expression trees and token-level mutations of them; for each
input it prints accept / reject / tree-and-error, the syntax tree and the number of engine steps.  The harness runs
the real grammar.Parse on the same bytes and compares verdict and tree (the step count is a fingerprint)."""
import json, os, random, sys
sys.path.insert(0, os.path.dirname(os.path.abspath(__file__)))
import vlib, pegrun


def main():
    chk = vlib.Check("C15")
    rnd = random.Random(chk.seed)
    quick = chk.tier == "quick"
    toks = pegrun.tokens(chk.tier)
    wd = vlib.sub("c15")
    trees, rows = pegrun.rendered_seeds(rnd, 120 if quick else 150, 3, wd)
    seeds = []
    cap = 2500 if quick else 6000
    for r in rows:
        s = pegrun.syms(r["text"])
        if s is None or r["steps"] > cap or r["steps"] == 0:
            continue
        seeds.append(s)
        for _ in range(2 if quick else 4):
            seeds.append(pegrun.mutate(rnd, s))
    # coverage-increasing inputs accumulated by the native fuzzer of C10 (if it has run on this machine)
    gocache = os.environ.get("GOCACHE", os.path.expanduser("~/.cache/go-build"))
    corpus = json.loads(vlib.harness(["corpus", "-dir", os.path.join(gocache, "fuzz", "verif", "harness", "fuzz", "FuzzCreate"), "-max", "80"]).stdout)
    rnd.shuffle(corpus)
    corpus = corpus[:(300 if quick else 5000)]
    seeds += corpus
    for t in pegrun.EXTRA_TEXTS:
        seeds.append(pegrun.syms(t))
        seeds.append(pegrun.mutate(rnd, pegrun.syms(t)))
    uniq = pegrun.cheap(seeds, cap, wd)
    world = pegrun.peg_world(toks, 2 if quick else 3, 1, uniq, later=pegrun.LATER if quick else pegrun.LATER[:3], traced=True)
    res = pegrun.run_peg(chk, "c15", world, shapes=False)
    chk.cov["evaluations"] = res["inputs"]
    chk.cov["distinct_nontrivial"] = res["byacc"].get("yes", 0) + res["byacc"].get("tree+error", 0)
    for m in res["language"]:
        chk.violation({"input": m["input"], "what": m["what"], "spec": m["spec"], "impl": m["impl"]})
    # long inputs of the language, too long for the model to run: membership and tree are known by construction (the grammar puts
    # no bound on the length of a chain, on the number of leading nots or on the depth of quantifier nesting)
    sys.setrecursionlimit(20000)
    m = vlib.match
    def chain(op, n):
        t = m(["b"], "==", "2")
        for _ in range(n):
            t = {"t": op, "l": m(["a"], "==", "1"), "r": t}
        return ("a == 1 %s " % op) * n + "b == 2", t
    def nest(n):
        t, text = m(["x"], "==", "1"), "x == 1"
        for _ in range(n):
            t = {"t": "coll", "op": "any", "sel": {"ty": "bexpr", "path": ["x"]}, "mode": "default", "n1": "x", "n2": "", "e": t}
            text = "any x as x { " + text + " }"
        return text, t
    longs = [chain("and", 1100), chain("or", 1100), ("not " * 1201 + "a == 1", {"t": "not", "e": m(["a"], "==", "1")}), ("not " * 1200 + "a == 1", m(["a"], "==", "1")),
             nest(150), ("a." + "b." * 1500 + "c == 1", m(["a"] + ["b"] * 1500 + ["c"], "==", "1")),
             ('a == "' + "x" * 5000 + '"', m(["a"], "==", "x" * 5000)), ("a" * 3000 + " is empty", m(["a" * 3000], "empty"))]
    if not quick:
        longs += [chain("and", 5000), chain("or", 5000), nest(400), ("not " * 9001 + "a == 1", {"t": "not", "e": m(["a"], "==", "1")})]
    with open(os.path.join(wd, "long.ndjson"), "w") as fh:
        for text, tree in longs:
            t = pegrun.peg_tree(tree, lambda x: x)
            fh.write(json.dumps({"inp": list(text), "obs": {"acc": "?"}, "cnt": 0, "errs": 0, "bud": {}, "seed": 0, "rt": True, "tree": t}) + "\n")
    vlib.harness(["parse", "-cases", os.path.join(wd, "long.ndjson"), "-out", os.path.join(wd, "long.json"), "-shapes=false"])
    lres = json.load(open(os.path.join(wd, "long.json")))
    vlib.log("c15: %d long inputs with membership and tree known by construction: %d not read as such" % (lres["inputs"], len(lres.get("round") or [])))
    for mm in lres.get("round") or []:
        impl = mm["impl"] if isinstance(mm["impl"], dict) else {}
        chk.violation({"input": mm["input"][:100] + "... (%d bytes)" % len(mm["input"]), "what": "a long input of the language is not accepted with the tree it denotes",
                       "spec": "accepted", "impl": {"acc": impl.get("acc"), "err": str(impl.get("err", ""))[:300]}})
    chk.cov["evaluations"] += lres["inputs"]
    chk.notes["long_inputs_by_construction"] = lres["inputs"]
    for s in res["samples"]:
        chk.sample(s)
    chk.notes["by_verdict"] = res["byacc"]
    chk.notes["fuzz_corpus_inputs_offered"] = len(corpus)
    chk.notes["unmodelled_inputs"] = res["unmodelled"]
    chk.notes["step_count_mismatches (fingerprint, not a verdict)"] = len(res["steps"])
    chk.notes["step_traces_compared (kind and position of every parseExpr call, spec vs hook)"] = res.get("tracescompared", 0)
    chk.notes["rule"] = ("every sequence of <= %d tokens over %d tokens (keywords, identifier shapes, numbers and near-numbers, complete / unterminated "
                         "/ badly escaped strings, punctuation, non-ASCII letter / number / symbol, invalid UTF-8, NUL) with and without separating "
                         "blanks (<= 1 open parenthesis), plus %d renderings of random trees (6 style profiles) and token-level mutations of them; "
                         "non-trivial = inputs on which the real parser returned a tree" % (world["maxtok"], len(toks), len(uniq)))
    chk.notes["exhaustive"] = True
    chk.assumptions += ["spec/grammar_frozen.json is the reference language (bootstrapped from the pinned grammar.peg, reviewed by hand)",
                        "escape forms \\u and \\U are followed for ASCII and for 22 listed code points (other code points: input skipped); byte escapes that may combine into one UTF-8 rune are skipped"]
    return chk.finish()


if __name__ == "__main__":
    vlib.main(main, "C15")
