#!/usr/bin/env python3
"""Demonstration of the binding between specification and implementation (not a registered check, writes no evidence).

For each of the three conformance mechanisms a run on the unchanged tree is recorded, shown to be accepted, then
corrupted in one field per sampled record and shown to be rejected at exactly the corrupted records:

  1. observation groups recorded from the real evaluator, validated by spec/Rel.tla (trace validation);
  2. cases enumerated by TLC with the outcome Den assigns, replayed on the real evaluator (spec -> code);
  3. parser cases from spec/Peg.tla (verdict, tree, step count, step-trace hash), compared with grammar.Parse and the
     step hook (code -> spec at step granularity).

Exit 0 if every corruption was detected and nothing else was reported, 1 otherwise."""
import json, os, random, sys
sys.path.insert(0, os.path.dirname(os.path.abspath(__file__)))
import vlib, pegrun


def main():
    chk = vlib.Check("C04")          # carrier for TLC statistics only; finish() is never called
    rnd = random.Random(7)
    ok = True

    def report(name, expected, got):
        nonlocal ok
        good = sorted(expected) == sorted(got)
        ok = ok and good
        print("%-58s corrupted %s -> rejected %s  %s" % (name, sorted(expected), sorted(got), "ok" if good else "MISSED"))

    # 1. observation groups through Rel.tla
    data = json.loads(vlib.harness(["data", "-worlds", "scalars"]).stdout)
    atoms, _ = vlib.atoms_for_docs(data["docs"], 2, rnd, per_path=2, ops_v=["==", "in", "matches"], ops_e=["empty"])
    world = vlib.make_world(["scalars"], data["docs"], data["cfgs"], [0], atoms, [], [], 1)
    summ, bad = vlib.run_relate(chk, "self-rel", world, "c04", invariants=("BuilderOK", "LawNeg"), module="Laws")
    report("Rel.tla, groups as recorded (%d)" % summ["groups"], [], [1 for _ in bad])
    wd = vlib.sub("self-rel")
    groups = [json.loads(l) for l in open(os.path.join(wd, "groups.ndjson"))]
    flip = {"T": "F", "F": "T", "E": "T"}
    idx = sorted(rnd.sample([i for i, g in enumerate(groups) if g["rel"] == "neg"], 3))
    for i in idx:
        groups[i]["r"] = flip[groups[i]["r"]]          # the outcome recorded for the negated operator
    with open(os.path.join(wd, "corrupt.ndjson"), "w") as fh:
        for g in groups:
            fh.write(json.dumps(g) + "\n")
    bad = vlib.validate_groups(chk, wd, os.path.join(wd, "corrupt.ndjson"))
    report("Rel.tla, one recorded outcome flipped in 3 groups", idx, [groups.index(g) for g in bad])

    # 2. replay of TLC's cases on the real evaluator
    res = vlib.run_world(chk, "self-den", world)
    report("replay, cases as enumerated (%d evaluations)" % res["evals"], [], [1 for m in res["mismatches"]])
    wd = vlib.sub("self-den")
    cases = [json.loads(l) for l in open(os.path.join(wd, "cases.ndjson"))]
    idx = sorted(rnd.sample(range(len(cases)), 3))
    texts = []
    for i in idx:
        cases[i]["x"][0][0] = flip.get(cases[i]["x"][0][0], "T")    # the outcome the specification assigns to the tree on its first (cfg, doc)
    with open(os.path.join(wd, "cases.ndjson"), "w") as fh:
        for c in cases:
            fh.write(json.dumps(c) + "\n")
    vlib.harness(["replay", "-world", os.path.join(wd, "world.json"), "-cases", os.path.join(wd, "cases.ndjson"), "-out", os.path.join(wd, "replay2.json")])
    res = json.load(open(os.path.join(wd, "replay2.json")))
    report("replay, specified outcome flipped in 3 cases", [3], [len(res.get("mismatches") or [])])

    # 3. parser cases: verdict, tree, step count, step trace
    toks = pegrun.tokens("quick")
    seeds = [pegrun.syms(t) for t in pegrun.EXTRA_TEXTS[:30]]
    pw = pegrun.peg_world(toks, 1, 1, seeds, traced=True)
    r = pegrun.run_peg(chk, "self-peg", pw, shapes=False)
    report("parser, cases as enumerated (%d inputs, %d step traces)" % (r["inputs"], r.get("tracescompared", 0)), [], [1 for _ in r["language"] + r["steps"]])
    wd = vlib.sub("self-peg")
    cases = [json.loads(l) for l in open(os.path.join(wd, "cases.ndjson"))]
    yes = [i for i, c in enumerate(cases) if c["obs"]["acc"] == "yes"]
    a, b, c3, d = rnd.sample(yes, 4)
    cases[a]["h"] += 1                                   # step trace
    cases[b]["cnt"] += 1                                 # step count
    cases[c3]["obs"]["acc"] = "no"                       # verdict
    cases[d]["obs"]["ast"] = cases[a]["obs"]["ast"] if cases[a]["obs"]["ast"] != cases[d]["obs"]["ast"] else cases[b]["obs"]["ast"]   # tree
    with open(os.path.join(wd, "cases.ndjson"), "w") as fh:
        for c in cases:
            fh.write(json.dumps(c) + "\n")
    vlib.harness(["parse", "-cases", os.path.join(wd, "cases.ndjson"), "-out", os.path.join(wd, "parse2.json"), "-shapes=false"])
    res = json.load(open(os.path.join(wd, "parse2.json")))
    whats = sorted(m["what"].split(" (")[0] for m in (res.get("language") or []) + (res.get("steps") or []))
    report("parser, hash / count / verdict / tree corrupted once each", ["accept / reject", "parser steps", "step trace", "syntax tree"], whats)
    # 4. evaluation traces: result and resolve events of spec/Eval.tla against the real evaluator under a recording hook
    data = json.loads(vlib.harness(["data", "-worlds", "json"]).stdout)
    m = vlib.match
    ex = [{"t": "and", "l": m(["meta", "env"], "==", "prod"), "r": m(["meta", "zz"], "==", "x")}, {"t": "or", "l": m(["name"], "==", "web"), "r": m(["zz"], "==", "1")},
          {"t": "coll", "op": "any", "sel": {"ty": "bexpr", "path": ["tags"]}, "mode": "default", "n1": "v", "n2": "", "e": m(["v"], "==", "b")},
          {"t": "coll", "op": "all", "sel": {"ty": "bexpr", "path": ["meta"]}, "mode": "both", "n1": "k", "n2": "v", "e": m(["v"], "!=", "zzz")}]
    r = vlib.run_machine(chk, "self-ev", data["docs"], data["cfgs"], [0, 2], ex, worlds=["json"])
    report("evaluation traces as recorded (%d, %d events)" % (r.evtrace["traces"], r.evtrace["events"]), [], [1 for _ in (r.evtrace.get("trace") or []) + (r.evtrace.get("outcome") or [])])
    wd = vlib.sub("self-ev")
    cases = [json.loads(l) for l in open(os.path.join(wd, "cases.ndjson"))]
    long = [i for i, c in enumerate(cases) if len(c["hlog"]) >= 2]
    a, b = long[0], long[-1]
    cases[a]["hlog"] = cases[a]["hlog"][1:] + cases[a]["hlog"][:1] if cases[a]["hlog"][0] != cases[a]["hlog"][1] else cases[a]["hlog"][1:]   # order of two events
    cases[b]["ret"] = flip.get(cases[b]["ret"], "T")
    with open(os.path.join(wd, "cases.ndjson"), "w") as fh:
        for c in cases:
            fh.write(json.dumps(c) + "\n")
    vlib.harness(["evtrace", "-world", os.path.join(wd, "world.json"), "-cases", os.path.join(wd, "cases.ndjson"), "-out", os.path.join(wd, "ev2.json")])
    res = json.load(open(os.path.join(wd, "ev2.json")))
    report("evaluation traces, one event order and one result corrupted", ["outcome", "resolve events"], sorted(x["what"] for x in (res.get("trace") or []) + (res.get("outcome") or [])))
    print("SELFTEST %s" % ("passed" if ok else "FAILED"))
    return 0 if ok else 1


if __name__ == "__main__":
    vlib.main(main, "SELFTEST")
