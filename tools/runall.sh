#!/bin/sh
# runs every registered check of a tier in place (against /repo), one after the other; usage: runall.sh <tier> <seed> [IDs...]
tier=${1:-quick}; seed=${2:-1}; shift 2 2>/dev/null
ids=${*:-C01 C02 C03 C04 C05 C06 C07 C08 C09 C10 C11 C12 C13 C14 C15 C16 C17 C18 C19 C20}
cd "$(dirname "$0")/.."
for id in $ids; do
  s=$(date +%s)
  out=$(VERIF_SEED=$seed bin/check $id --tier $tier 2>/dev/null | grep -E "^(OK|VIOLATION|KNOWN-FINDING)" | cut -c1-160)
  rc=$?
  echo "$id seed=$seed tier=$tier $(( $(date +%s) - s ))s: ${out:-NO VERDICT LINE (infrastructure error?)}"
done
