"""Exact reading of Go floating-point literal text (strconv.ParseFloat syntax) at 32 and
64 bits, by rational arithmetic.  Independent of Go: nothing here calls strconv.

read(text) -> {"f64": bits | "syntax" | "range", "f32": ...}
bits is the IEEE-754 bit pattern as lower-case hex (16 / 8 digits), "nan" for NaN.
"""
from fractions import Fraction
import struct


def _lower(c):
    return c.lower()


def underscore_ok(s):
    saw = '^'
    i = 0
    if len(s) >= 1 and s[0] in '+-':
        s = s[1:]
    hexp = False
    if len(s) >= 2 and s[0] == '0' and s[1].lower() in 'box':
        i = 2
        saw = '0'
        hexp = s[1].lower() == 'x'
    while i < len(s):
        c = s[i]
        if ('0' <= c <= '9') or (hexp and 'a' <= c.lower() <= 'f'):
            saw = '0'
        elif c == '_':
            if saw != '0':
                return False
            saw = '_'
        else:
            if saw == '_':
                return False
            saw = '!'
        i += 1
    return saw != '_'


def _special(s):
    """returns ("inf", sign) / ("nan", 1) / None; must consume the whole string"""
    if not s:
        return None
    sign = 1
    t = s
    if t[0] in '+-':
        if t[0] == '-':
            sign = -1
        t = t[1:]
        low = t.lower()
        if low in ('inf', 'infinity'):
            return ('inf', sign)
        return None
    low = t.lower()
    if low in ('inf', 'infinity'):
        return ('inf', sign)
    if low == 'nan':
        return ('nan', 1)
    return None


def _read(s):
    """strconv.readFloat: returns (neg, Fraction value) or None on a syntax error"""
    i = 0
    n = len(s)
    if i >= n:
        return None
    neg = False
    if s[i] == '+':
        i += 1
    elif s[i] == '-':
        neg = True
        i += 1
    base = 10
    expchar = 'e'
    if i + 2 < n and s[i] == '0' and s[i + 1].lower() == 'x':
        base = 16
        i += 2
        expchar = 'p'
    underscores = False
    sawdot = False
    sawdigits = False
    mant = 0
    nd = 0
    dp = 0
    while i < n:
        c = s[i]
        if c == '_':
            underscores = True
            i += 1
            continue
        if c == '.':
            if sawdot:
                break
            sawdot = True
            dp = nd
            i += 1
            continue
        if '0' <= c <= '9':
            sawdigits = True
            mant = mant * base + (ord(c) - 48)
            nd += 1
            i += 1
            continue
        if base == 16 and 'a' <= c.lower() <= 'f':
            sawdigits = True
            mant = mant * base + (ord(c.lower()) - 87)
            nd += 1
            i += 1
            continue
        break
    if not sawdigits:
        return None
    if not sawdot:
        dp = nd
    frac_digits = nd - dp
    e = 0
    if i < n and s[i].lower() == expchar:
        i += 1
        if i >= n:
            return None
        esign = 1
        if s[i] == '+':
            i += 1
        elif s[i] == '-':
            i += 1
            esign = -1
        if i >= n or not ('0' <= s[i] <= '9'):
            return None
        while i < n and (('0' <= s[i] <= '9') or s[i] == '_'):
            if s[i] == '_':
                underscores = True
                i += 1
                continue
            if e < 10000:
                e = e * 10 + (ord(s[i]) - 48)
            i += 1
        e *= esign
    elif base == 16:
        return None
    if underscores and not underscore_ok(s[:i]):
        return None
    if i != n:
        return None
    if base == 16:
        val = Fraction(mant) * Fraction(2) ** (e - 4 * frac_digits)
    else:
        val = Fraction(mant) * Fraction(10) ** (e - frac_digits)
    return (neg, val)


def _round(x, mbits, emin, emax):
    """round positive Fraction x to nearest-even with mbits of precision; returns Fraction or 'inf'"""
    if x == 0:
        return Fraction(0)
    # find e with 2^e <= x < 2^(e+1)
    num, den = x.numerator, x.denominator
    e = num.bit_length() - den.bit_length()
    if Fraction(2) ** e > x:
        e -= 1
    elif Fraction(2) ** (e + 1) <= x:
        e += 1
    if e < emin:
        e = emin
    q = Fraction(2) ** (e - (mbits - 1))
    nq = x / q
    fl = nq.numerator // nq.denominator
    rem = nq - fl
    if rem > Fraction(1, 2) or (rem == Fraction(1, 2) and fl % 2 == 1):
        fl += 1
    val = fl * q
    if val >= Fraction(2) ** (emax + 1):
        return 'inf'
    return val


def _bits64(neg, val):
    f = float(val)
    assert Fraction(f) == val
    if neg:
        f = -f
    return struct.pack('>d', f).hex()


def _bits32(neg, val):
    f = float(val)
    assert Fraction(f) == val
    if neg:
        f = -f
    b = struct.pack('>f', f)
    assert Fraction(struct.unpack('>f', b)[0]) == (-val if neg else val)
    return b.hex()


def read(s):
    sp = _special(s)
    if sp is not None:
        if sp[0] == 'nan':
            return {"f64": "nan", "f32": "nan"}
        return {"f64": "fff0000000000000" if sp[1] < 0 else "7ff0000000000000",
                "f32": "ff800000" if sp[1] < 0 else "7f800000"}
    r = _read(s)
    if r is None:
        return {"f64": "syntax", "f32": "syntax"}
    neg, val = r
    out = {}
    v64 = _round(val, 53, -1022, 1023)
    out["f64"] = "range" if v64 == 'inf' else _bits64(neg, v64)
    v32 = _round(val, 24, -126, 127)
    out["f32"] = "range" if v32 == 'inf' else _bits32(neg, v32)
    return out


def table(texts):
    return {t: read(t) for t in sorted(set(texts))}


if __name__ == "__main__":
    import sys
    for t in sys.argv[1:]:
        print(repr(t), read(t))
