#!/usr/bin/env python3
"""C06 - any/all fold the body over the elements with correct binding, order and scoping.

TLC enumerates quantifier shells (all four binding modes) over every collection-shaped path x bodies that use the
binding as root, as prefix, shadowed, through an inner quantifier or not at all (LawUnroll on the reference
semantics), and prints the elements the specification sees; the harness evaluates the quantifier and each unrolled
body P[S.i] with the real code; Rel.tla checks quantifier = early-exit fold of the element outcomes.  Cases whose
body uses the key/index binding cannot be unrolled and are judged against the reference semantics instead."""
import json, os, random, sys
sys.path.insert(0, os.path.dirname(os.path.abspath(__file__)))
import vlib
from vlib import match


def coll(op, path, mode, n1, n2, body):
    return {"t": "coll", "op": op, "sel": {"ty": "bexpr", "path": path}, "mode": mode, "n1": n1, "n2": n2, "e": body, "val": "", "hv": False}


BODIES = [
    match(["v"], "==", "1"), match(["v"], "==", "2"), match(["v"], "!=", "a"), match(["v"], "==", "x"), match(["v"], "empty"), match(["v"], "in", "a"),
    match(["v", "id"], "==", "2"), match(["v", "x"], "==", "1"), match(["v", "V"], "==", "2"), match(["v", "0"], "==", "1"), match(["v", "X"], "==", "3"),
    match(["v", "zz"], "==", "1"), match(["v", "attr", "k"], "==", "v"), match(["v", "tags"], "notempty"),
    match(["k"], "==", "a"), match(["k"], "==", "1"), match(["k"], "!=", "b"), match(["k"], "matches", "^[ab]$"), match(["k", "x"], "==", "1"),
    match(["v"], "==", "n:x"), match(["v"], "!=", "dflt"), match(["v", "a"], "==", "1"),
    match(["top"], "==", "5"), match(["x"], "==", "shadowed-top"), match(["zz"], "==", "1"),
    {"t": "or", "l": match(["k"], "==", "b"), "r": match(["zz"], "==", "1"), "val": "", "hv": False, "mode": "", "n1": "", "n2": ""},
    {"t": "and", "l": match(["v"], "!=", "0"), "r": match(["top"], "==", "5"), "val": "", "hv": False, "mode": "", "n1": "", "n2": ""},
    # inner quantifiers: rooted at the outer binding, shadowing it, independent of it
    coll("any", ["v", "tags"], "default", "t", "", match(["t"], "==", "b")),
    coll("all", ["v", "tags"], "default", "v", "", match(["v"], "!=", "a")),
    coll("any", ["v", "attr"], "both", "k", "v", match(["v"], "==", "v")),
    coll("any", ["v"], "default", "w", "", match(["w"], "==", "2")),
    coll("any", ["v"], "default", "v", "", match(["v"], "==", "2")),
    coll("any", ["v", "l"], "value", "", "v", match(["v"], "==", "2")),
    coll("all", ["nums"], "default", "v", "", match(["v"], "!=", "9")),
    coll("any", ["v", "tags"], "default", "v", "", coll("any", ["recs"], "default", "v", "", match(["v", "id"], "==", "3"))),
    # bodies for shells whose binding is named like the top-level field they iterate (recs, grid, byname): the name means the
    # element inside the braces, also as the root of an inner quantifier's selector
    coll("any", ["recs", "tags"], "default", "y", "", match(["y"], "==", "b")), match(["recs", "id"], "==", "2"),
    coll("any", ["grid"], "default", "w", "", match(["w"], "==", "2")), coll("all", ["recs", "attr"], "both", "k2", "v2", match(["v2"], "!=", "zz")),
    coll("any", ["byname", "l"], "value", "", "byname", match(["byname"], "==", "2")),
]


def main():
    chk = vlib.Check("C06")
    rnd = random.Random(chk.seed)
    quick = chk.tier == "quick"
    nontrivial = 0
    lens = {}
    for wn, cfgsel in (("records", [0, 2]), ("containers", [0]), ("json", [0]), ("wrapped", [10, 15, 16])):
        data = json.loads(vlib.harness(["data", "-worlds", wn]).stdout)
        paths = []
        for d in data["docs"]:
            vlib.walk_paths(d["av"], [], 3, paths, True)
        def is_coll(node):
            if node is None:
                return False
            nd = node["to"] if node["k"] == "ptr" else node
            return nd["k"] in ("list", "map")
        ckeys = sorted({tuple(p) for p, node in paths if p and len(p) <= 3 and is_coll(node)})
        okeys = sorted({tuple(p) for p, node in paths if p and len(p) <= 3 and not is_coll(node)})
        rnd.shuffle(ckeys)
        rnd.shuffle(okeys)

        def odd(node):
            # collections with nil elements, pointer elements or keys that need escaping come first
            nd = node["to"] if node["k"] == "ptr" else node
            j = json.dumps(nd)[:4000]
            return '"k": "nil"' in j or '"k": "nilptr"' in j or "~" in j or "a/b" in j
        first = sorted({tuple(p) for p, node in paths if p and len(p) <= 3 and is_coll(node) and odd(node)})
        ckeys = first + [k for k in ckeys if k not in first]
        keys = ckeys[:(26 if quick else 80)] + okeys[:(3 if quick else 12)]
        colls = []
        for key in keys:
            for op in ("any", "all"):
                for mode, n1, n2 in (("default", "v", ""), ("index", "k", ""), ("value", "", "v"), ("both", "k", "v")):
                    colls.append({"op": op, "sel": {"ty": "bexpr", "path": list(key)}, "mode": mode, "n1": n1, "n2": n2})
        colls.append({"op": "any", "sel": {"ty": "bexpr", "path": ["nums"]}, "mode": "both", "n1": "v", "n2": "v"})
        if wn == "records":
            for key in ("recs", "grid", "byname"):
                for op in ("any", "all"):
                    colls += [{"op": op, "sel": {"ty": "bexpr", "path": [key]}, "mode": "default", "n1": key, "n2": ""},
                              {"op": op, "sel": {"ty": "bexpr", "path": [key]}, "mode": "value", "n1": "", "n2": key},
                              {"op": op, "sel": {"ty": "bexpr", "path": [key]}, "mode": "both", "n1": "k", "n2": key},
                              {"op": op, "sel": {"ty": "bexpr", "path": [key]}, "mode": "both", "n1": key, "n2": "v"}]
        atoms = list(BODIES)
        world = vlib.make_world([wn], data["docs"], data["cfgs"], cfgsel, atoms, list(range(len(atoms))), colls, 2, want_parts=True)
        tag = "c06-" + wn
        # spec -> code on every enumerated case (covers the key/index bindings that cannot be unrolled)
        res = vlib.run_world(chk, tag + "-den", world, module="Laws", invariants=("BuilderOK", "LawUnroll"))
        for m in res["mismatches"]:
            if m.get("text") != "...more" and "coll" in json.dumps(m["tree"]):
                chk.violation({"law": "reference semantics", "expr": m["text"], "doc": m["doc"], "cfg": m["cfg"], "spec": m["want"], "impl": m["got"]["o"]})
        summ, bad = vlib.run_relate(chk, tag, world, "c06", module="Laws", invariants=("BuilderOK", "LawUnroll"))
        chk.cov["evaluations"] += summ["evals"] + res["evals"]
        for l in open(os.path.join(vlib.sub(tag), "groups.ndjson")):
            g = json.loads(l)
            lens[len(g["el"])] = lens.get(len(g["el"]), 0) + 1
            if g["r"] in "TF":
                nontrivial += 1
        for g in bad:
            chk.violation({"law": "quantifier = fold of unrolled bodies", "group": {k: v for k, v in g.items() if k != "info"}, "info": g["info"]})
        for s in summ["samples"][:2]:
            chk.sample(s)
        if wn == "records":
            # the code-shaped small-step machine refines the reference semantics and keeps scoping / order invariants
            ex = []
            for c in colls[:(24 if quick else 120)]:
                for bdy in BODIES[:: (3 if quick else 1)]:
                    ex.append({"t": "coll", "op": c["op"], "sel": c["sel"], "mode": c["mode"], "n1": c["n1"], "n2": c["n2"], "e": bdy})
            vlib.run_machine(chk, "c06-machine", data["docs"], data["cfgs"], cfgsel, ex, worlds=[wn])
    chk.cov["distinct_nontrivial"] = nontrivial
    chk.notes["groups_by_collection_length"] = {str(k): v for k, v in sorted(lens.items())}
    chk.notes["rule"] = ("quantifier shells (any/all x four binding modes) over every structural path up to depth 3 (lists, arrays, "
                         "[]interface{}, maps of every value shape, non-collections, absent) x bodies using the binding as root / prefix / "
                         "shadowed / in an inner quantifier / not at all; non-trivial = the quantifier evaluated to true or false")
    return chk.finish()


if __name__ == "__main__":
    vlib.main(main, "C06")
