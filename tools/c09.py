#!/usr/bin/env python3
"""C09 - Evaluate is total: it never panics, and an error always comes with false.

TLC enumerates the operator x kind matrix: 8 operators x every reflect.Kind (incl. Invalid) reached as a map value,
behind one and two pointers, as a nil pointer, as element of []interface{} / typed slices / arrays / pointer slices, as
typed map value and map key, plus the container / record / JSON worlds with quantifier shells over every
collection-shaped path; the reference semantics (in which every guard of the reflect API is explicit: no outcome
other than T, F, E exists) assigns each case its outcome, and the harness replays each on the real code.
Verdict: a recovered panic or a (true, error) result.  (Disagreement on T/F/E is C01's verdict, not this one.)"""
import json, os, random, sys
sys.path.insert(0, os.path.dirname(os.path.abspath(__file__)))
import vlib
from vlib import match


def main():
    chk = vlib.Check("C09")
    rnd = random.Random(chk.seed)
    quick = chk.tier == "quick"
    by = {}
    never = 0
    for wn, cfgsel, depth in (("kinds", [0], 2), ("containers", [0, 5], 2), ("records", [0], 3), ("json", [0, 5], 3), ("scalars", [0], 1), ("absent", [0, 5, 6], 2)):
        data = json.loads(vlib.harness(["data", "-worlds", wn]).stdout)
        lits = ["1", "", "abc", "true", "k", "a", "0", "2.5"] if wn == "kinds" else []
        atoms, keys = vlib.atoms_for_docs(data["docs"], depth, rnd, per_path=2 if quick else 6, extra_lits=lits if not quick else lits[:4])
        body = [match(["v"], "==", "1"), match(["v"], "in", "a"), match(["v"], "empty"), match(["v"], "matches", "a"), match(["k"], "==", "a"),
                match(["v", "zz"], "==", "1"), match(["v", "0"], "notempty"), match(["k"], "in", "a"), match(["v", "A"], "==", "1"), match(["k", "a"], "==", "1")]
        b0 = len(atoms)
        atoms += body
        paths = []
        for d in data["docs"]:
            vlib.walk_paths(d["av"], [], 2, paths, True)
        def is_coll(node):
            if node is None:
                return False
            nd = node["to"] if node["k"] == "ptr" else node
            return nd["k"] in ("list", "map")
        ckeys = sorted({tuple(p) for p, n in paths if p and is_coll(n)})
        okeys = sorted({tuple(p) for p, n in paths if p and not is_coll(n)})
        rnd.shuffle(ckeys)
        rnd.shuffle(okeys)
        colls = []
        for key in ckeys[:(70 if quick else 300)] + okeys[:(10 if quick else 60)]:
            for mode, n1, n2 in (("default", "v", ""), ("index", "k", ""), ("value", "", "v"), ("both", "k", "v")):
                colls.append({"op": rnd.choice(["any", "all"]), "sel": {"ty": "bexpr", "path": list(key)}, "mode": mode, "n1": n1, "n2": n2})
        world = vlib.make_world([wn], data["docs"], data["cfgs"], cfgsel, atoms, list(range(b0, len(atoms))), colls, 2)
        res = vlib.run_world(chk, "c09-" + wn, world)
        chk.cov["evaluations"] += res["evals"]
        chk.cov["traces_validated_against_impl"] += res["cases"] - res["skipped"]
        for k, v in res["byoutcome"].items():
            by[k] = by.get(k, 0) + v
        for m in res.get("never") or []:
            never += 1
            chk.violation({"world": wn, "expr": m["text"], "doc": m["doc"], "cfg": m["cfg"], "impl": m["got"]["o"],
                           "detail": m["got"].get("panic") or m["got"].get("err", "")})
        for s in res["samples"][:2]:
            chk.sample(s)
    # reflect-constructed random documents (types the zoo does not contain) x random expressions over their paths
    rec, bad = vlib.run_random(chk, "c09-random", chk.seed + 1000, 120 if quick else 3000, 60)
    for m in rec["never"]:
        chk.violation({"world": "random", "expr": m["text"], "impl": m["o"]})
    for k, v in rec["by"].items():
        by[k] = by.get(k, 0) + v
    chk.cov["distinct_nontrivial"] = by.get("E", 0)
    chk.notes["by_outcome"] = by
    chk.notes["rule"] = ("8 operators x structural paths of 40 kind documents (every reflect.Kind incl. chan, func, complex, uintptr, unsafe "
                         "pointer, nil at any depth, typed and interface containers, typed map keys) and of the container / record / JSON / "
                         "absent worlds, plus quantifier shells (4 binding modes) over them; non-trivial = evaluations on which the real "
                         "code returned an error (the paths where a missing guard would panic)")
    chk.notes["exhaustive"] = True
    return chk.finish()


if __name__ == "__main__":
    vlib.main(main, "C09")
