#!/usr/bin/env python3
"""Runs every seeded change against the quick check of the property it breaks (tools/seedrun.py, scratch worktree); a change
that this check does not report is then run against all the other checks.  Appends `<CHECK> on <seed>: exit <rc>` lines to the log
given as first argument (input of tools/mkmatrix.py).  Usage: matrix.py <log> [parallel=3] [seed-glob]"""
import concurrent.futures as cf, glob, json, os, re, subprocess, sys, threading
V = os.path.dirname(os.path.dirname(os.path.abspath(__file__)))
log = sys.argv[1]
par = int(sys.argv[2]) if len(sys.argv) > 2 else 3
pat = sys.argv[3] if len(sys.argv) > 3 else "*"
ALL = ["C%02d" % i for i in range(1, 21)]
lock = threading.Lock()
done = {}
if os.path.exists(log):
    for l in open(log):
        m = re.match(r"(C\d\d) on (\S+): exit (\d)", l)
        if m:
            done[(m.group(2), m.group(1))] = int(m.group(3))


def run(seed, ids):
    ids = [i for i in ids if (seed, i) not in done]
    if not ids:
        return {}
    p = subprocess.run([sys.executable, os.path.join(V, "tools", "seedrun.py"), seed] + ids, cwd=V, capture_output=True, text=True, timeout=6 * 3600)
    out = {}
    with lock, open(log, "a") as fh:
        for l in (p.stdout + p.stderr).splitlines():
            m = re.match(r"(C\d\d) on (\S+): exit (\d)", l)
            if m:
                fh.write(l[:300] + "\n")
                out[m.group(1)] = int(m.group(3))
    return out


def job(d):
    seed = os.path.basename(d)
    meta = json.load(open(os.path.join(d, "meta.json")))
    own = meta.get("breaks") or meta.get("property")
    own = [own] if isinstance(own, str) else list(own)
    r = run(seed, own)
    caught = any(rc == 1 for rc in r.values()) or any(rc == 1 for (s, c), rc in done.items() if s == seed)
    if not caught and not os.environ.get("MATRIX_OWN_ONLY"):
        run(seed, [c for c in ALL if c not in own])
    return seed


with cf.ThreadPoolExecutor(par) as ex:
    for s in ex.map(job, sorted(glob.glob(os.path.join(V, "seeded", pat)))):
        print("done", s, flush=True)
