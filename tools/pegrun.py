"""Shared by C10 / C11 / C15 / C16: token alphabets, seeds, the PegCases run and the harness `parse` replay."""
import json, os, random
import vlib
from vlib import match

SPECIAL = {"<0>", "<L>", "<N>", "<S>", "<B>"}


def syms(text):
    """text -> model symbols (None if it contains characters outside the model alphabet)"""
    out = []
    for ch in text:
        o = ord(ch)
        if ch in "<>":
            return None
        if 32 <= o < 127 or ch in "\t\n\r":
            out.append(ch)
        elif o == 0:
            out.append("<0>")
        elif ch.isalpha():
            out.append("<L>")
        elif ch.isnumeric():
            out.append("<N>")
        elif o < 32 or o == 127:
            return None
        else:
            out.append("<S>")
    return out


def tok(s):
    return list(s)


TOKENS_BASE = ["and", "or", "not", "in", "is", "empty", "contains", "matches", "any", "all", "as",
               "a", "foo", "x1", "a/b", "_", "notx", "B", ".1a", "._b", ".b", ".0", ".01", ".2nd",
               "0", "1", "12", "1.5", "-1", "01", "1.",
               '"a"', "`a`", '""', '"/a"', '"a\\n"', '"\\q"', '"a', "`a", "`a\r`", '"a\nb"', '"/a~1b"', '"/m/a~01b"',
               "(", ")", "{", "}", "[", "]", ",", ".", "==", "!=", "=", "!", "\t", "\n"]
TOKENS_SPECIAL = [["[", '"', " ", "x", " ", '"', "]"], ["<L>"], ["<N>"], ["<S>"], ["<B>"], ["<0>"], ['"', "<L>", '"'], ['"', "<B>", '"'], ["a", "<L>"], ['"', "/", "<L>", "<N>", '"']]


# hand-written sources: forms of the value position (bare words, dotted and indexed selectors as literals), number and near-number
# spellings, unparenthesised chains of three and more operands
EXTRA_TEXTS = ['foo == a["b"]', 'foo != a[ `b` ]', 'a["b"] in foo', 'foo contains a.b["c d"]', 'foo == a.b.c', 'foo == a.0', 'a.b in foo', 'foo == a["b"].c["d"]',
               'foo matches a["b"]', 'foo == a[b]', 'foo == a["b"', 'foo == a.', 'foo == "/a/b"', 'foo == /a/b',
               'foo == 0x1F', 'foo != -0x10', '(foo == 0xff)', '0x2 in foo', 'foo == 0x', 'foo == 0X1f', 'foo == 1e5', 'foo == 1E-5', 'foo == 1_000', 'foo == 0b1', 'foo == 0o7',
               'foo == 1.5.2', 'foo == .5', 'foo == 5.', 'foo == +5', 'foo == -', 'foo == -0', 'foo == 00', 'foo == 0.0', 'foo == -1.50', 'foo == 1x', 'foo == 0 ', 'foo == 0)',
               '(foo == 0)', 'foo == 0a', 'foo == 0.', 'foo == 0.5x', 'foo == 09', 'foo == 0_1', 'foo == -a', 'foo == 0x1F and a == 1', '0 in foo', '0x in foo',
               'a == 1 and b == 2 and c == 3', 'a == 1 or b == 2 or c == 3', 'a == 1 and b == 2 and c == 3 and d == 4', 'a == 1 or b == 2 and c == 3 or d == 4',
               'not a == 1 and not b == 2 and c == 3', '(a == 1 and b == 2) and c == 3', 'a == 1 and (b == 2 and c == 3)', 'any a as x { x == 1 and x == 2 and x == 3 }',
               # what may follow a literal: closing braces / parentheses / other punctuation directly after numbers, strings and bare words
               'any xs as x { x == 1}', 'all m as k, v { v != -2.5}', 'any xs as x {x == 1 }', 'any xs as x { x == "1"}', 'any xs as x { x == a}', 'any xs as x { 1 in x}',
               'any xs as x { x is empty}', 'any xs as x { x == `1`}', '(a == 1)', '(a == 1 )', '( a == 1)', 'a == 1,', 'a == 1]', 'a == 1{', 'a == 1"', 'a == 1(', 'a == 1\t', 'a == 1\n',
               'a == 1\r', 'a == 1.5}', 'a == -1)', '(a == b)', '(a == "b")', 'any xs as x { (x == 1) }', 'any xs as x { (x == 1)}', 'any xs as x {(x == 1)}', 'all xs as x{x == 1 }',
               'all xs as x { x == 1 }}', 'all xs as x { x == 1 } ', 'all xs as _ ,v { v == 1 }', 'all xs as k,v{ v == 1 and k == 0 }', '1 in a}', 'a == 1 }',
               # characters outside ASCII at the edges and between tokens (each class symbol is tried with many members)
               '☃foo == 1', 'foo == 1☃', 'foo ☃== 1', 'foo == ☃', 'foo == "a☃b"', 'foo == `☃`', 'foo☃ == 1', 'a["☃"] == 1', 'a.☃ == 1', '☃', ' ☃ ', 'foo == 1 ☃', 'é == 1', 'foo == é',
               # negation: stacked, through parentheses, in front of the keyword used as an identifier
               'not not a == 1', 'not (not a == 1)', 'not (not (not a == 1))', 'not not (not a == 1)', 'not ( not a == 1 )', 'not not == 1', 'not not not in x', 'not not not == 1',
               'not (a == 1)', 'not(a == 1)', 'not\t(a == 1)', 'not not', 'not', 'not a', '(not a == 1) and not (b == 2)', 'not (a == 1 and not (b == 2))', 'not not in x', 'not in x',
               'not any xs as x { not x == 1 }', 'any xs as x { not (not x == 1) }', 'a == 1 and not not b == 2', 'not a == 1 or not not not b == 2',
               # binding lists
               'any xs as _, _ { a == 1 }', 'any xs as _ { a == 1 }', 'any xs as _,v { v == 1 }', 'any xs as v,_ { v == 1 }', 'any xs as v, v { v == 1 }', 'any xs as { a == 1 }',
               'any xs as 1 { a == 1 }', 'any xs as a.b { a == 1 }', 'any xs as "v" { v == 1 }', 'any xs as v w { v == 1 }', 'any xs as v, { v == 1 }', 'any xs as ,v { v == 1 }',
               'any xs as v, w, z { v == 1 }', 'any xs as and { and == 1 }', 'any xs as not { not == 1 }', 'any xs as any { any == 1 }', 'any xs as _x { _x == 1 }',
               'any xs as x_ { x_ == 1 }', 'any xs as __ { __ == 1 }', 'any xs as _ , _ { a == 1 }', 'all xs as _,_{a == 1}', 'any xs as v ,w { v == w }', 'anyxs as v { v == 1 }',
               'any xs asv { v == 1 }', 'any xs as v{v == 1}', 'any "/xs" as v { v == 1 }', 'any xs.0["k"] as k, v { k == v }', 'Any xs as v { v == 1 }', 'ALL xs as v { v == 1 }',
               # escape sequences inside double-quoted literals (strconv.Unquote)
               'foo == "\\u00e9"', 'foo == "\\u00E9x"', 'foo == "\\U0001F600"', 'foo == "\\ud800"', 'foo == "\\U00110000"', 'foo == "\\u12"', 'foo == "\\101"',
               'foo == "\\377"', 'foo == "\\400"', 'foo == "\\18"', 'foo == "\\x41"', 'foo == "\\xc3\\xa9"', 'foo == "\\303\\251"', 'foo == "\\xff\\x41"', 'foo == "\\0"',
               'foo == "\\u0000"', 'foo == "\\u0041\\u00bd"', 'foo == "\\\'"', 'a["\\u00e9"] == 1', 'foo == "\\U000000e9"', 'foo == "\\x4"', 'foo == "\\xzz"', 'foo == "\\u00a0"',
               'foo == "\\U0010FFFF"', 'foo == "\\UFFFFFFFF"', 'foo == "\\udfff"', 'foo == "\\ue000"', 'foo == "\\a\\b\\f\\v"', 'foo == "\\x80\\101"', 'foo == "\\342\\x98\\x83"', 'foo == "\\u"',
               'foo == "\\07"', 'foo == "\\008"', 'foo matches "\\\\d+\\x2e"', '"\\u00bd" in foo',
               'a == 1 or b == 2 or c == 3 or d == 4 or e == 5', '(a == 1 or b == 2) or c == 3', 'a is empty and b is empty and c is not empty']


# the tokens allowed from the third position on in the thorough tier (3-token sequences over the full alphabet are too many)
LATER = ["and", "or", "not", "in", "is", "empty", "as", "a", "foo", "1", "1.5", '"a"', "`a`", '"a', "(", ")", "{", "}", "[", "]", ",", ".", "==", "!=", "_"]


def tokens(tier):
    t = [tok(x) for x in TOKENS_BASE] + TOKENS_SPECIAL
    return t


def coll(op, path, mode, n1, n2, body, ty="bexpr"):
    return {"t": "coll", "op": op, "sel": {"ty": ty, "path": path}, "mode": mode, "n1": n1, "n2": n2, "e": body, "val": "", "hv": False}


def b(op, l, r):
    return {"t": op, "l": l, "r": r, "val": "", "hv": False, "mode": "", "n1": "", "n2": ""}


def n(e):
    return {"t": "not", "e": e, "val": "", "hv": False, "mode": "", "n1": "", "n2": ""}


OPS = ["==", "!=", "in", "notin", "empty", "notempty", "matches", "notmatches"]
PATHS = [["a"], ["foo", "bar"], ["a", "0"], ["a", "b c"], ["x1", "y", "2"], ["a/b", "c"], ["a", "007"], ["m", "a~b"], ["m", "a/b"], ["m", "a~1b"], ["m", "~0~1"], ["not"], ["a", "in"], ["a", ""],
         ["a", "."], ["a", ".."], ["notes"], ["android", "or1"], ["a", " lead"], ["a", "trail "], ["a", "UP"], ["a", "%s"], ["inner", "all"], ["r", "q\"x"], ["k", "é"]]
VALS = ["1", "x", "", "hello world", "1.5", "-3", "true", "/usr/bin", "a\"b", "a`b", "a\\b", "é", "foo.bar", "v1.2", "a\nb", "0x10", "not", "in", " ", "a\tb", "a/b", "12abc", "100%", "%d%s", "a\\"]


def random_tree(rnd, depth):
    r = rnd.random()
    if depth <= 0 or r < 0.35:
        op = rnd.choice(OPS)
        return match(rnd.choice(PATHS), op, "" if op in ("empty", "notempty") else rnd.choice(VALS))
    if r < 0.5:
        e = random_tree(rnd, depth - 1)
        return e if e["t"] == "not" else n(e)
    if r < 0.85:
        return b(rnd.choice(["and", "or"]), random_tree(rnd, depth - 1), random_tree(rnd, depth - 1))
    mode = rnd.choice(["default", "index", "value", "both"])
    n1, n2 = {"default": ("v", ""), "index": ("k", ""), "value": ("", "v"), "both": ("k", "v")}[mode]
    return coll(rnd.choice(["any", "all"]), rnd.choice(PATHS[:8]), mode, n1, n2, random_tree(rnd, depth - 1))


def rendered_seeds(rnd, ntrees, depth, workdir):
    """random trees rendered by the harness in several styles; returns (trees, [(tree index, style, text)])"""
    trees = [random_tree(rnd, rnd.randint(0, depth)) for _ in range(ntrees)]
    path = os.path.join(workdir, "trees.json")
    with open(path, "w") as fh:
        json.dump(trees, fh)
    rows = json.loads(vlib.harness(["render", "-exprs", path]).stdout)
    return trees, rows


def mutate(rnd, s):
    """token-level insert / delete / swap / duplicate on a symbol sequence"""
    s = list(s)
    # cut into tokens at blanks and punctuation
    toks, cur = [], []
    for c in s:
        if c in " \t\n(){}[],.":
            if cur:
                toks.append(cur)
                cur = []
            toks.append([c])
        else:
            cur.append(c)
    if cur:
        toks.append(cur)
    if not toks:
        return s
    i = rnd.randrange(len(toks))
    k = rnd.random()
    if k < 0.25:
        del toks[i]
    elif k < 0.5:
        toks.insert(i, list(rnd.choice(TOKENS_BASE)))
    elif k < 0.7 and len(toks) > 1:
        j = rnd.randrange(len(toks))
        toks[i], toks[j] = toks[j], toks[i]
    elif k < 0.85:
        toks.insert(i, list(toks[i]))
    else:
        t = toks[i]
        if t:
            p = rnd.randrange(len(t))
            t[p:p + 1] = rnd.choice([[], [t[p], t[p]], ["<L>"], ["<B>"], ['"'], ["`"], ["\\"], ["~"], ["/"]])
    return [c for t in toks for c in t]


def cheap(seeds, cap, workdir):
    """keep the inputs on which the real parser takes at most cap steps (cost bound for the model run, not an oracle)"""
    seen, uniq = set(), []
    for s in seeds:
        k = "\x01".join(s)
        if k not in seen:
            seen.add(k)
            uniq.append(s)
    path = os.path.join(workdir, "inputs.json")
    with open(path, "w") as fh:
        json.dump(uniq, fh)
    steps = json.loads(vlib.harness(["steps-of", "-inputs", path, "-cap", str(cap + 1)]).stdout)
    if steps and max(steps) == 0:
        raise vlib.Infra("the parser step hook reports nothing")
    return [s for s, n in zip(uniq, steps) if 0 < n <= cap]


def peg_world(toks, maxtok, maxparen, seeds, budgets=False, expect=(), checked=False, later=None, traced=False):
    g = load_grammar()
    return {"grammar": g, "tokens": toks, "maxtok": maxtok, "maxparen": maxparen, "seeds": seeds, "budgets": budgets, "expect": list(expect), "checked": checked, "traced": traced,
            "later": list(range(1, len(toks) + 1)) if later is None else [toks.index(tok(t)) + 1 for t in later]}


KIND_CODE = {"choice": 1, "seq": 2, "act": 3, "lab": 4, "ref": 5, "lit": 6, "cls": 7, "any": 8, "andcode": 9, "not": 10, "and": 11, "opt": 12, "star": 13, "plus": 14}


def load_grammar():
    """the frozen reference grammar; every parsing expression also carries the number of its kind (c), which spec/Peg.tla folds
    into the step-trace hash (a derived field: the kinds themselves are what is frozen)"""
    g = json.load(open(os.path.join(vlib.SPEC, "grammar_frozen.json")))
    def ann(x):
        if isinstance(x, dict):
            if x.get("t") in KIND_CODE:
                x["c"] = KIND_CODE[x["t"]]
            for v in x.values():
                ann(v)
        elif isinstance(x, list):
            for v in x:
                ann(v)
    ann(g)
    return g


def symstr(s):
    x = syms(s)
    return None if x is None else "".join(x)


def peg_tree(e, symstr=None):
    """an expression tree in exactly the record shape spec/Peg.tla builds (strings over the model alphabet, or as they are with
    symstr = the identity); None if not expressible"""
    if symstr is None:
        symstr = globals()["symstr"]
    t = e["t"]
    if t == "match":
        path = [symstr(p) for p in e["sel"]["path"]]
        val = symstr(e.get("val", ""))
        if None in path or val is None:
            return None
        hv = e["op"] not in ("empty", "notempty")
        ty = "ptr" if path[0] == "not" else e["sel"]["ty"]       # the renderer spells a selector starting with the word not as a JSON Pointer
        return {"t": "match", "sel": {"ty": ty, "path": path}, "op": e["op"], "val": val if hv else "", "hv": hv}
    if t == "not":
        x = peg_tree(e["e"], symstr)
        return None if x is None else {"t": "not", "e": x}
    if t in ("and", "or"):
        l, r = peg_tree(e["l"], symstr), peg_tree(e["r"], symstr)
        return None if l is None or r is None else {"t": t, "l": l, "r": r}
    if t == "coll":
        path = [symstr(p) for p in e["sel"]["path"]]
        x = peg_tree(e["e"], symstr)
        if None in path or x is None:
            return None
        return {"t": "coll", "op": e["op"], "sel": {"ty": "ptr" if path[0] == "not" else e["sel"]["ty"], "path": path}, "mode": e["mode"], "n1": e["n1"], "n2": e["n2"], "e": x}
    return None


def run_peg(chk, tag, world, invariants=(), shapes=True, timeout=3000):
    wd = vlib.sub(tag)
    cfg = ('SPECIFICATION Spec\nCONSTANT WorldFile = "world.json"\n' + "".join("INVARIANT %s\n" % i for i in invariants) + "CHECK_DEADLOCK FALSE\n")
    r = vlib.run_tlc("PegCases", cfg, wd, files={"world.json": world}, timeout=timeout)
    chk.add_tlc(r)
    if r.violation:
        raise vlib.Infra("model invariant %s violated in %s:\n%s" % (r.violation, tag, r.out[-2500:]))
    with open(os.path.join(wd, "cases.ndjson"), "w") as fh:
        for c in r.cases:
            fh.write(json.dumps(c) + "\n")
    vlib.harness(["parse", "-cases", os.path.join(wd, "cases.ndjson"), "-out", os.path.join(wd, "parse.json")] + ([] if shapes else ["-shapes=false"]))
    res = json.load(open(os.path.join(wd, "parse.json")))
    for k in ("language", "steps", "shape", "budget", "samples"):
        res[k] = res.get(k) or []
    vlib.log("%s: %d inputs %s, %d unmodelled, language mismatches %d, step count / step trace mismatches %d (%d traces compared), shape problems %d, budget problems %d (%d budgeted parses)" % (
        tag, res["inputs"], res["byacc"], res["unmodelled"], len(res["language"]), len(res["steps"]), res.get("tracescompared", 0), len(res["shape"]), len(res["budget"]), res["budgetruns"]))
    if res["inputs"] == 0:
        raise vlib.Infra("%s: no input was parsed" % tag)
    chk.cov["traces_validated_against_impl"] += res["inputs"]
    return res
