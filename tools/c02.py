#!/usr/bin/env python3
"""C02 - equality compares in the selected value's own type; bad literals are errors.

(a) spec/Coerce.tla: TLC evaluates the reference readings (ParseBool spellings, exact base-prefixed 64-bit integers in
    four 16-bit limbs, floats from the exact-rational table at both widths) for EVERY string up to a length over the
    alphabet where the syntax classes live, plus boundary spellings; the harness compares the public Coerce* functions
    value-for-value (all 64 bits) and error class for error class.
(b) spec/Cases.tla: `sel == lit` for selectors of every scalar kind (all widths, named types, pointers, interface,
    json.Number) and non-scalars, with boundary values, x the same literal universe rendered bare / double-quoted /
    back-quoted; the harness replays on the real evaluator."""
import itertools, json, os, random, re, sys
sys.path.insert(0, os.path.dirname(os.path.abspath(__file__)))
import vlib
from vlib import match

ALPHA = "-+0179_xboaf.etT"
BOUNDARY = ["9223372036854775807", "9223372036854775808", "-9223372036854775808", "-9223372036854775809", "18446744073709551615", "18446744073709551616",
            "0x7fffffffffffffff", "0x8000000000000000", "-0x8000000000000000", "0xffffffffffffffff", "0x10000000000000000", "0777777777777777777777",
            "01777777777777777777777", "02000000000000000000000", "0b1", "0B11", "0o17", "0O17", "1_000", "1__0", "_1", "1_", "0x_1", "0_1", "0x1_", "-0", "+0",
            "017", "-010", "0010", "08", "09", "0x0F", "0XfF", "255", "0377", "0b11111111", "0o377", "1_0_0", "100", "1000", "63", "127", "128", "-128", "-129", "32767", "-32768",
            "2147483647", "4294967295", "4294967296", "9007199254740992", "9007199254740993", "9007199254740994", "-9007199254740993", "9_007_199_254_740_993",
            "0.1", "0.10000000000000001", "0.1000000000000000055511151231257827", "0.100000001490116119384765625", "1.5", "1.0", "1e0", "10e-1", "1E1", "1e7", "10000000", "1e400", "-1e400", "1e-400",
            "5e-324", "4.9e-324", "2e-324", "1e-45", "1.4e-45", "7e-46", "3.4028235e38", "3.4028236e38", "3.5e38", "1e39", "1.7976931348623157e308", "1.7976931348623159e308",
            "16777216", "16777217", "16777218", "16777217.000000001", "1.0000000596046448", "1.00000005960464477539062", "1.000000059604644775390625", "1.0000000596046447753906251",
            "1.0000001", "1.00000012", "0x1p0", "0x1p-2", "0x1.8p1", "0x1p", "0X1P+3", "inf", "+Inf", "-inf", "Infinity", "infinit", "nan", "NaN", "+nan", "-0.0", "0.0", ".5", "5.", ".", "1e", "1e+", "--1", "+-1", "1.2.3",
            "true", "false", "TRUE", "True", "tRUE", "FALSE", "False", "yes", "no", "on", "t", "f", "T", "F", "1", "0", "2", "", " 1", "1 ", " ", "héllo", "a\"b", "a\\b", "a\nb", "\t", "`", "/usr/bin", "/", "s", "01", "0x1", "a\x00b"]


def limbs(val):
    return vlib.limbs_to_int(val["v"])


def texts(maxlen):
    out = [""]
    for n in range(1, maxlen + 1):
        out += ["".join(t) for t in itertools.product(ALPHA, repeat=n)]
    return out


def main():
    chk = vlib.Check("C02")
    rnd = random.Random(chk.seed)
    quick = chk.tier == "quick"
    import floattab
    # (a) the coercion functions
    tx = texts(3 if quick else 4) + BOUNDARY
    tx = sorted(set(tx))
    world = {"texts": tx, "floattab": floattab.table(tx)}
    wd = vlib.sub("c02-coerce")
    cfg = 'SPECIFICATION Spec\nCONSTANT WorldFile = "world.json"\nINVARIANT Shape\nCHECK_DEADLOCK FALSE\n'
    r = vlib.run_tlc("Coerce", cfg, wd, files={"world.json": world}, timeout=3000)
    chk.add_tlc(r)
    if r.violation:
        raise vlib.Infra("Coerce model invariant violated: %s" % r.violation)
    with open(os.path.join(wd, "cases.ndjson"), "w") as fh:
        for c in r.cases:
            fh.write(json.dumps(c) + "\n")
    vlib.harness(["coerce", "-world", os.path.join(wd, "world.json"), "-cases", os.path.join(wd, "cases.ndjson"), "-out", os.path.join(wd, "coerce.json")])
    res = json.load(open(os.path.join(wd, "coerce.json")))
    vlib.log("coerce: %d texts, %d values agreed, %d mismatches" % (res["texts"], res["values"], len(res["mismatches"] or [])))
    if res["texts"] != len(tx):
        raise vlib.Infra("coerce: %d of %d texts compared" % (res["texts"], len(tx)))
    chk.cov["evaluations"] += 5 * res["texts"]
    chk.cov["traces_validated_against_impl"] += res["texts"]
    nontrivial = res["values"]
    for m in res["mismatches"] or []:
        chk.violation({"fn": m["fn"], "text": m["text"], "spec": m["spec"], "impl": m["impl"]})
    chk.sample({"text": "0x1_", "spec_reading": [c for c in r.cases if tx[c["n"] - 1] == "0x1_"][:1]})
    # (b) equality through the evaluator
    data = json.loads(vlib.harness(["data", "-worlds", "eq"]).stdout)
    doc = data["docs"][0]["av"]
    keys = [e["key"]["v"] for e in doc["v"]]
    short = texts(2 if quick else 3)
    rep = ["i7", "u7", "f7", "g7", "bt", "s1", "j7", "i15", "u17", "f1", "g1", "bf", "s0", "nil", "l", "pi", "any1", "ni", "nf", "ng"]
    atoms = []
    for k in keys:
        val = next(e["val"] for e in doc["v"] if e["key"]["v"] == k)
        own = vlib.own_text(val)
        # literals just outside the field's width: valid 64-bit literals, so the comparison is false, not an error
        m = re.search(r"(\d+)$", val.get("t", "")) if val["k"] in ("int", "uint") else None
        if m and int(m.group(1)) < 64:
            b = int(m.group(1))
            own += [str(2 ** (b - 1)), str(-2 ** (b - 1) - 1), str(2 ** b), str(2 ** b + limbs(val)), str(limbs(val) - 2 ** b)]
        lits = list(BOUNDARY) + own + (short if k in rep else [])
        if quick and k not in rep:
            lits = rnd.sample(BOUNDARY, 40) + own
        for l in sorted(set(lits)):
            atoms.append(match([k], "==", l))
    # spellings no renderer chooses: a carriage return inside backticks is not part of the string (Go drops it), escapes denote
    # their character; the text is given, the tree says what it denotes
    if "snl" in keys:
        for lit, src in (("a\nb", "snl == `a\r\nb`"), ("a\nb", "snl == `a\n\rb`"), ("a\nb", 'snl == "a\\nb"'), ("a\nb", 'snl == "a\\x0ab"'), ("a\nb", 'snl == "a\\012b"'),
                         ("a\nb", 'snl == "\\u0061\\nb"'), ("\t", "stab == `\t`"), ("\t", 'stab == "\\t"'), ("\t", "stab == `\r\t\r`"), ("\t", 'stab == "\\x09"'), ("s", "s == `\rs`"), ("1", "s1 == `1\r`"),
                         ("1", "i1 == `1\r`"), ("1", 'i1 == "\\x31"'), ("7", 'u7 == "\\067"'), ("true", "bt == `tr\rue`")):
            atoms.append(dict(match([src.split(" ")[0]], "==", lit), src=src))
    world = vlib.make_world(["eq"], data["docs"], data["cfgs"], [0], atoms, [], [], 1)
    res = vlib.run_world(chk, "c02-eq", world, replay_args=["-lits", "auto,raw,bare"])
    chk.cov["evaluations"] += res["evals"]
    chk.cov["traces_validated_against_impl"] += res["cases"] - res["skipped"]
    nontrivial += res["byoutcome"].get("T", 0) + res["byoutcome"].get("F", 0)
    for m in res["mismatches"]:
        if m.get("text") != "...more":
            chk.violation({"expr": m["text"], "doc": m["doc"], "spec": m["want"], "impl": m["got"]["o"], "detail": m["got"].get("err", "")})
    for s in res["samples"][:4]:
        chk.sample(s)
    chk.cov["distinct_nontrivial"] = nontrivial
    chk.notes["by_outcome"] = res["byoutcome"]
    chk.notes["rule"] = ("(a) every string of length <= %d over %r plus %d boundary spellings, through each of the five Coerce* functions; "
                         "(b) `sel == lit` for %d selectors (every scalar kind and width, named, pointer, interface, json.Number, non-scalars) x "
                         "boundary spellings, own values and all strings of length <= %d on representative fields, in bare / double-quoted / "
                         "back-quoted rendering; non-trivial = coercions that yield a value + equalities that evaluate to true or false"
                         % (3 if quick else 4, ALPHA, len(BOUNDARY), len(keys), 2 if quick else 3))
    chk.notes["exhaustive"] = True
    chk.assumptions.append("nearest-float readings come from tools/floattab.py (exact rational arithmetic, independent of strconv)")
    return chk.finish()


if __name__ == "__main__":
    vlib.main(main, "C02")
