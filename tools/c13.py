#!/usr/bin/env python3
"""C13 - evaluation is pure and history-independent; Expression() returns the source.

spec/Api.tla: TLC enumerates every history of up to k Evaluate / Execute calls on a set of long-lived evaluators and
filters over documents whose outcomes mix true / false / error (invariant HistoryIndependent on the model; no action
writes a document).  The harness executes each history on the real library - one evaluator object per history, one
document object per history - and records, per call, the outcome next to that of a freshly created evaluator on a
freshly built document, whether the document's projection changed, and Expression(); Rel.tla validates the groups."""
import json, os, random, sys
sys.path.insert(0, os.path.dirname(os.path.abspath(__file__)))
import vlib
from vlib import match


def coll(op, path, mode, n1, n2, body):
    return {"t": "coll", "op": op, "sel": {"ty": "bexpr", "path": path}, "mode": mode, "n1": n1, "n2": n2, "e": body, "val": "", "hv": False}


def main():
    chk = vlib.Check("C13")
    quick = chk.tier == "quick"
    worlds = ["maps", "absent", "records", "conts"]
    data = json.loads(vlib.harness(["data", "-worlds", ",".join(worlds)]).stdout)
    docs = data["docs"]
    names = [d["name"] for d in docs]
    exprs = [
        coll("any", ["m3"], "both", "k", "v", match(["v", "V"], "==", "2")),            # errors on some maps, decides on others
        coll("all", ["m4"], "both", "k", "v", match(["v", "V"], "==", "2")),
        match(["m", "zz"], "==", "1"),                                                    # absent key / absent parent / struct
        match(["byname", "a", "x"], "==", "1"),
        match(["s"], "matches", "^sc"),
        match(["s"], "matches", "("),
        coll("any", ["recs"], "default", "r", "", coll("any", ["r", "tags"], "default", "t", "", match(["t"], "==", "b"))),
        match(["X"], "==", "1"),                                                          # filters over the containers
        {"t": "and", "l": match(["X"], "==", "1"), "r": match(["Y"], "!=", "a"), "val": "", "hv": False, "mode": "", "n1": "", "n2": ""},
        # a broken pattern / an erroring quantifier body that only some documents reach
        {"t": "or", "l": match(["top"], "==", "5"), "r": match(["mix", "b"], "matches", "("), "val": "", "hv": False, "mode": "", "n1": "", "n2": ""},
        {"t": "or", "l": match(["top"], "==", "5"), "r": coll("any", ["m3e"], "value", "", "top", match(["top", "V"], "==", "2")), "val": "", "hv": False, "mode": "", "n1": "", "n2": ""},
        # a literal that is ill-formed for the kind one document holds under the key and fine for the kind another one holds
        match(["top"], "==", "6.5"), match(["top"], "!=", "-1e0"),
    ]
    evs = [{"e": i + 1, "c": 1, "f": False} for i in range(7)] + [{"e": 1, "c": 2, "f": False}, {"e": 3, "c": 2, "f": False},
           {"e": 8, "c": 1, "f": True}, {"e": 9, "c": 1, "f": True}, {"e": 10, "c": 1, "f": False}, {"e": 11, "c": 1, "f": False},
           {"e": 12, "c": 1, "f": False}, {"e": 13, "c": 1, "f": False}]
    # documents: the maps / absent / records documents for evaluators, a few containers for filters
    pick = [i for i, n in enumerate(names) if n in ("maps", "maps-b", "absent", "absent-b", "records", "items", "ifaces", "smap", "map-err", "nil", "arr-if", "arr-maps")]
    docs_sel = [docs[i] for i in pick]
    # the harness rebuilds documents by index into the concatenated worlds: keep the full list, restrict calls in the model
    if not quick:
        # length-3 histories over a smaller alphabet of calls (8 objects x 7 documents = 56 call types, 178 k histories)
        evs = [evs[i] for i in (0, 1, 2, 4, 7, 9, 11, 13)]
        pick = [i for i in pick if names[i] in ("maps", "maps-b", "absent", "absent-b", "items", "arr-if", "arr-maps")]
    world = vlib.api_world("hist", worlds, docs, data["cfgs"], [0, 2], exprs, 2 if quick else 3, evs=evs)
    world["docsel"] = [i + 1 for i in pick]
    summ, bad = vlib.run_api(chk, "c13", world, invariants=("HistoryIndependent",))
    chk.cov["evaluations"] += summ["evals"]
    chk.cov["distinct_nontrivial"] = summ["byrel"].get("same", 0)
    for g in bad:
        chk.violation({"law": g["info"].get("law", "call after a history = call on a fresh evaluator"), "group": {k: v for k, v in g.items() if k != "info"}, "info": g["info"]})
    for s in summ["samples"][:4]:
        chk.sample(s)
    chk.notes["rule"] = ("all histories of length <= %d over %d evaluators/filters (quantifiers over maps that error or decide, absent keys, "
                         "valid and invalid regexps, nested quantifiers, two configurations) x %d documents; non-trivial = calls compared "
                         "with a fresh evaluator" % (world["maxlen"], len(evs), len(pick)))
    chk.notes["exhaustive"] = True
    return chk.finish()


if __name__ == "__main__":
    vlib.main(main, "C13")
