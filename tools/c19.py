#!/usr/bin/env python3
"""C19 - ExpressionDump and Selector.String render the tree faithfully.

spec/Dump.tla defines the documented rendering as a sequence of (level, text) lines (invariant WellFormed: one block per
node, levels within the tree depth).  TLC evaluates it for every tree of the universe; the harness parses a rendering of
each tree with the real parser (so the dumped tree is parser-produced), calls ExpressionDump for every (indent, start
level) pair, twice, and compares byte for byte with indent^level + text (+ strconv.Quote of the literal) per line."""
import json, os, random, sys
sys.path.insert(0, os.path.dirname(os.path.abspath(__file__)))
import vlib, pegrun
import c16


def main():
    chk = vlib.Check("C19")
    rnd = random.Random(chk.seed)
    quick = chk.tier == "quick"
    wd = vlib.sub("c19")
    trees = c16.small_trees() + [pegrun.random_tree(rnd, rnd.randint(1, 4)) for _ in range(60 if quick else 1500)]
    # literals and selector parts outside ASCII (printable, non-printable, outside the BMP), quotes, backslashes, control characters
    odd = ["é", "日本語", "🙂", "a\u00a0b", "\u200b", "\x7f", "\x01", "tab\there", "q\"q", "b\\s", "ünï", "\ufeffx", "e\u0301", "%!q(é)", "\U0001F600 \u00ff"]
    for i, o in enumerate(odd):
        trees.append(vlib.match(["x"], ["==", "!=", "in", "notin"][i % 4], o))
        trees.append(vlib.match(["k", o], "==", "1"))
    trees.append({"t": "coll", "op": "any", "sel": {"ty": "bexpr", "path": ["m", "日本"]}, "mode": "both", "n1": "k", "n2": "v", "e": vlib.match(["v"], "!=", "é"), "val": "", "hv": False})
    with open(os.path.join(wd, "trees.json"), "w") as fh:
        json.dump(trees, fh)
    styles = [{"sel": "auto", "lit": "auto", "ws": "", "paren": 0, "cont": False}, {"sel": "pointer", "lit": "auto", "ws": "", "paren": 0, "cont": False}]
    with open(os.path.join(wd, "styles.json"), "w") as fh:
        json.dump(styles, fh)
    rows = json.loads(vlib.harness(["render", "-exprs", os.path.join(wd, "trees.json"), "-styles", os.path.join(wd, "styles.json")]).stdout)
    items, ptrees = [], []
    for r in rows:
        # the dump works on the real strings, not on the model alphabet of the parser model
        t = pegrun.peg_tree(trees[r["i"]], lambda s: s)
        if t is None or r["steps"] == 0 or r["steps"] > 200000:
            continue
        if r["style"] == 1:
            t = json.loads(json.dumps(t).replace('"ty": "bexpr"', '"ty": "ptr"'))
        items.append({"text": r["text"]})
        ptrees.append(t)
    with open(os.path.join(wd, "items.json"), "w") as fh:
        json.dump(items, fh)
    cfg = 'SPECIFICATION Spec\nCONSTANT WorldFile = "world.json"\nINVARIANT WellFormed\nCHECK_DEADLOCK FALSE\n'
    r = vlib.run_tlc("Dump", cfg, wd, files={"world.json": {"trees": ptrees}}, timeout=1800)
    chk.add_tlc(r)
    if r.violation:
        raise vlib.Infra("Dump model invariant violated: %s" % r.violation)
    with open(os.path.join(wd, "cases.ndjson"), "w") as fh:
        for c in r.cases:
            fh.write(json.dumps(c) + "\n")
    res = json.loads(vlib.harness(["dump", "-trees", os.path.join(wd, "items.json"), "-cases", os.path.join(wd, "cases.ndjson")]).stdout)
    vlib.log("c19: %d trees, %d dumps, %d differences" % (res["trees"], res["dumps"], len(res["bad"])))
    if res["trees"] == 0:
        raise vlib.Infra("no tree was dumped")
    chk.cov["evaluations"] = res["dumps"]
    chk.cov["distinct_nontrivial"] = res["trees"]
    chk.cov["traces_validated_against_impl"] = res["trees"]
    for m in res["bad"]:
        chk.violation({"what": m["what"], "text": m["text"], "indent": m["indent"], "level": m["level"], "spec": m["spec"][:400], "impl": m["impl"][:400]})
    chk.sample(res["sample"])
    chk.notes["rule"] = ("%d parser-produced trees (every operator, both selector types incl. '.', '..' and escaped segments, quantifiers in all binding "
                         "modes inside connectives and each other, random trees up to depth 4) x 8 indent strings (empty, blank, tab, two letters, 3 / 4 / 8 "
                         "blanks, mixed) x start levels {0, 1, 3, 5, 9, 11}, each dumped twice; non-trivial = trees" % res["trees"])
    chk.notes["exhaustive"] = True
    chk.assumptions.append("strconv.Quote is used to spell the quoted literal of the expected rendering")
    return chk.finish()


if __name__ == "__main__":
    vlib.main(main, "C19")
