#!/usr/bin/env python3
"""Builds DESIGN.md's Appendix F (seeded changes x checks) from seedrun logs: lines `<CHECK> on <seed>: exit <rc> ...`."""
import glob, json, os, re, sys
V = os.path.dirname(os.path.dirname(os.path.abspath(__file__)))
res = {}
for f in sys.argv[1:]:
    for l in open(f, errors="replace"):
        m = re.match(r"(C\d\d) on (\S+): exit (\d)", l)
        if m:
            res.setdefault(m.group(2), {})[m.group(1)] = int(m.group(3))
rows = []
for d in sorted(glob.glob(os.path.join(V, "seeded", "*"))):
    n = os.path.basename(d)
    meta = json.load(open(os.path.join(d, "meta.json")))
    prop = meta.get("breaks") or meta.get("property")
    what = (meta.get("summary") or "").replace("\n", " ").replace("|", "/")
    what = what[:150] + ("…" if len(what) > 150 else "")
    r = res.get(n, {})
    caught = sorted(c for c, rc in r.items() if rc == 1)
    missed = sorted(c for c, rc in r.items() if rc == 0)
    other = sorted(c for c, rc in r.items() if rc == 2)
    rows.append("| %s | %s | %s | %s | %s |" % (n, prop, what, ", ".join(caught) or "—", ", ".join(missed + ["%s (exit 2)" % c for c in other]) or ""))
out = ["## Appendix F — seeded changes and the checks that catch them", "",
       "`tools/seedrun.py <seed> <IDs>` applies `seeded/<seed>/patch.diff` to a scratch worktree of /repo's HEAD and runs the registered quick checks of a",
       "snapshot of /verif against it (equivalent to `git -C /repo apply` + check + `git -C /repo checkout -- .`). The `C??[a-j]` changes come from independent",
       "sub-agents that saw only the property text and a scratch worktree (rounds a/b ... i, j; each confirmed by `tools/seedconfirm.py`: applies, existing suite passes,",
       "demonstration fails with / passes without); `own-*` are hand-written calibration changes. `tools/matrix.py` runs each change against the quick check of the",
       "property it breaks and, when that check stays silent, against all the others. Column *caught by* lists the quick checks that print VIOLATION; *run but silent*",
       "lists checks that were run against the change and printed nothing (for a check of another property that is the correct answer).", "",
       "| seed | breaks | change | caught by | run but silent |", "|---|---|---|---|---|"] + rows
total = len(rows)
caught = sum(1 for r in rows if "| — |" not in r)
out += ["", "%d of %d seeded changes are reported by at least one registered quick check." % (caught, total), ""]
print("\n".join(out))
