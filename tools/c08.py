#!/usr/bin/env python3
"""C08 - hidden and unexported struct fields never influence any result.

Documents come in pairs that differ only in the contents of fields tagged "-" (under bexpr or json) and of unexported
(also embedded) fields.  TLC enumerates expressions naming those fields by Go name, by tag name, through quantifiers,
`in`, `is empty`, `matches` on the enclosing structs, under both tag names and with an unknown value, and assigns each
the reference outcome (in which a hidden field never resolves).  The harness evaluates both documents of each pair
with the real code (2-safety): Rel.tla checks that the two outcomes coincide; the replay checks the reference outcome;
Filter selections on containers of the paired elements are compared as well."""
import json, os, random, sys
sys.path.insert(0, os.path.dirname(os.path.abspath(__file__)))
import vlib
from vlib import match

SECRETS = ["s3cr3t", "0ther", "priv", "pri2", "s3cr3t3", "s4s3cr3t", "n10ther", "n1s3cr3t", "3t", "^s3", "her", "4", "6", "13", "bee", "jay"]


def main():
    chk = vlib.Check("C08")
    rnd = random.Random(chk.seed)
    quick = chk.tier == "quick"
    nontrivial = 0
    for wn, cfgsel in (("secrets-bexpr", [0, 2]), ("secrets-json", [1, 8]), ("secrets-pointer", [12]), ("secrets-zero", [0])):
        nontrivial += one_world(chk, rnd, quick, wn, cfgsel)
    chk.cov["distinct_nontrivial"] = nontrivial
    chk.notes["rule"] = ("expressions over every structural path of three paired documents (struct, pointer to struct, struct inside map / "
                         "slice / pointer slice / map of structs) incl. hidden, unexported, embedded and tag-renamed fields x literals "
                         "that match the hidden contents x tag names {bexpr, json, pointer} x {no unknown value, unknown value}; each pair "
                         "differs only in fields hidden under the tag name in use and in unexported fields; "
                         "non-trivial = some document of the pair evaluated to true or false")
    return chk.finish()


def one_world(chk, rnd, quick, wn, cfgsel):
    data = json.loads(vlib.harness(["data", "-worlds", wn]).stdout)
    atoms, keys = vlib.atoms_for_docs(data["docs"], 4 if not quick else 3, rnd, per_path=1 if quick else 4, extra_lits=SECRETS if not quick else ["s3cr3t", "3t"] + rnd.sample(SECRETS[1:], 2))
    # names that only exist as hidden / unexported / promoted fields, addressed in every plausible way
    for p in (["Hidden"], ["JHidden"], ["private"], ["Promoted"], ["hiddenEmb"], ["hiddenEmb", "Promoted"], ["Inner", "Secret"], ["Inner", "low"],
              ["PInner", "Secret"], ["List", "0", "Secret"], ["M", "a", "Secret"], ["M", "b", "sec"], ["jhid"], ["Inner", "sec"], ["t", "Hidden"],
              ["privmap", "zz"], ["privmap", "priv"], ["privany", "k"], ["privany", "zz"], ["t", "privmap", "zz"], ["private", "zz"], ["l", "0", "Hidden"], ["pl", "0", "Hidden"], ["m", "k", "Hidden"], ["t", "Inner", "Secret"], ["EmbField"], ["Embedded", "EmbField"]):
        for op in ("==", "!=", "in", "notin", "matches", "notmatches"):
            for l in SECRETS[:6]:
                atoms.append(match(p, op, l))
        atoms.append(match(p, "empty"))
        atoms.append(match(p, "notempty"))
    body = []
    for root in (["v", "Secret"], ["v", "sec"], ["v", "low"], ["v", "Hidden"], ["v", "private"], ["v", "X"], ["v", "name"], ["v", "Name"], ["v"], ["k"]):
        for op, l in (("==", "s3cr3t"), ("matches", "3t"), ("in", "s3"), ("==", "1"), ("!=", "0ther")):
            body.append(match(root, op, l))
    b0 = len(atoms)
    atoms += body
    colls = []
    for key in (["List"], ["M"], ["l"], ["pl"], ["m"], ["t", "List"], ["t", "M"], ["Inner"], ["t"], ["PInner"], ["l", "0", "List"]):
        for op in ("any", "all"):
            for mode, n1, n2 in (("default", "v", ""), ("value", "", "v"), ("both", "k", "v")):
                colls.append({"op": op, "sel": {"ty": "bexpr", "path": key}, "mode": mode, "n1": n1, "n2": n2})
    world = vlib.make_world([wn], data["docs"], data["cfgs"], cfgsel, atoms, list(range(b0, len(atoms))), colls, 2)
    # 2-safety on real observations
    summ, bad = vlib.run_relate(chk, "c08-" + wn, world, "c08")
    chk.cov["evaluations"] += summ["evals"]
    nontrivial = 0
    for l in open(os.path.join(vlib.sub("c08-" + wn), "groups.ndjson")):
        g = json.loads(l)
        if any(o in "TF" for o in g.get("obs", [])):
            nontrivial += 1
    for g in bad:
        chk.violation({"law": g["info"].get("law", "documents differing only in hidden content give the same outcome"), "group": {k: v for k, v in g.items() if k != "info"}, "info": g["info"]})
    for s in summ["samples"][:3]:
        chk.sample(s)
    # a selector naming a hidden field never resolves to its content: the reference outcome (error / unknown value)
    res = vlib.run_world(chk, "c08-den-" + wn, world)
    chk.cov["evaluations"] += res["evals"]
    for m in res["mismatches"]:
        if m.get("text") != "...more":
            chk.violation({"law": "reference semantics (hidden fields do not resolve)", "expr": m["text"], "doc": m["doc"], "cfg": m["cfg"],
                           "spec": m["want"], "impl": m["got"]["o"]})
    return nontrivial


if __name__ == "__main__":
    vlib.main(main, "C08")
