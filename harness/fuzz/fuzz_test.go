package fuzz

import (
	"bytes"
	"strings"
	"testing"

	bexpr "github.com/hashicorp/go-bexpr"
	"github.com/hashicorp/go-bexpr/grammar"
)

const budget = 200000

// FuzzCreate asserts the result shapes of C10 on arbitrary bytes: no panic; evaluator xor error; grammar.Parse and
// CreateEvaluator agree on acceptance; what is returned is usable. The budget keeps mutated inputs with many
// unmatched parentheses cheap; the budget error is one of the two legal result shapes.
func FuzzCreate(f *testing.F) {
	for _, s := range []string{"a == 1", "foo.bar[\"x\"] != `y` and not (b in c or d is empty)", "all xs as i, v { v.k matches \"^a\" }",
		"\"/a/b~1c\" contains 3", "x == \"\\x41\\n\"", "(a == 1", "a == \"unterminated", "any m as _, v { v is not empty }", "\xff a == 1", "a == 1 \x00", "1.5 in x", "é == 1"} {
		f.Add([]byte(s))
	}
	f.Fuzz(func(t *testing.T, b []byte) {
		v, perr := grammar.Parse("", b, grammar.MaxExpressions(budget))
		if perr == nil {
			if v == nil {
				t.Fatalf("grammar.Parse returned neither a value nor an error for %q", b)
			}
			x, ok := v.(grammar.Expression)
			if !ok {
				t.Fatalf("grammar.Parse returned a %T for %q", v, b)
			}
			x.ExpressionDump(&bytes.Buffer{}, " ", 0)
		}
		ev, err := bexpr.CreateEvaluator(string(b), bexpr.WithMaxExpressions(budget))
		if (ev == nil) == (err == nil) {
			t.Fatalf("CreateEvaluator returned evaluator=%v error=%v for %q", ev != nil, err, b)
		}
		if (err == nil) != (perr == nil) {
			t.Fatalf("CreateEvaluator (%v) and grammar.Parse (%v) disagree on %q", err, perr, b)
		}
		if ev != nil {
			ev.Evaluate(map[string]interface{}{"a": 1, "x": []interface{}{1, "s", nil}, "m": map[string]interface{}{"k": "v"}})
			ev.Evaluate(nil)
			if ev.Expression() != string(b) {
				t.Fatalf("Expression() differs from the source %q", b)
			}
		}
		if perr != nil && strings.Contains(perr.Error(), "max number of expresssions") {
			return // the unbudgeted CreateFilter below could be expensive
		}
		fl, ferr := bexpr.CreateFilter(string(b))
		if len(b) == 0 {
			if fl != nil || ferr != nil {
				t.Fatalf("CreateFilter(\"\") is not the nil filter")
			}
			return
		}
		if (fl == nil) == (ferr == nil) {
			t.Fatalf("CreateFilter returned filter=%v error=%v for %q", fl != nil, ferr, b)
		}
		if (ferr == nil) != (perr == nil) {
			t.Fatalf("CreateFilter (%v) and grammar.Parse (%v) disagree on %q", ferr, perr, b)
		}
		if fl != nil {
			fl.Execute([]map[string]interface{}{{"a": 1}})
		}
	})
}
