// Package av projects real Go values onto the abstract values (AV) of
// spec/Den.tla. The projection is a plain reflection walk that shares no code
// with go-bexpr or pointerstructure.
package av

import (
	"encoding/json"
	"fmt"
	"math"
	"reflect"
	"sort"
)

// Type is a static Go type as far as the specification cares.
type Type struct {
	C    string `json:"c"`              // iface bool int uint f32 f64 str ptr list map struct opaque
	T    string `json:"t"`              // Go type name (kinds that have one)
	Bits int    `json:"bits,omitempty"` // int / uint
	To   *Type  `json:"to,omitempty"`   // ptr
	Kind string `json:"kind,omitempty"` // opaque
}

type IntV struct {
	Neg bool   `json:"neg"`
	M   [4]int `json:"m"`
}

type Entry struct {
	Key AV `json:"key"`
	Val AV `json:"val"`
}

type Field struct {
	N    string            `json:"n"`
	Tags map[string]string `json:"tags"`
	Exp  bool              `json:"exp"`
	V    AV                `json:"v"`
}

// AV is one abstract value; which members are meaningful depends on K.
type AV struct {
	K    string
	T    string
	Bool bool
	Int  IntV
	Str  string // str, jnum, f32/f64 bit pattern
	To   *AV
	Arr  bool
	Et   *Type
	Kt   *Type
	List []AV
	Ents []Entry
	Bs   *string
	F    []Field
	Kind string
}

func (a AV) MarshalJSON() ([]byte, error) {
	m := map[string]interface{}{"k": a.K}
	switch a.K {
	case "nil", "nilptr", "none":
	case "bool":
		m["t"], m["v"] = a.T, a.Bool
	case "int", "uint":
		m["t"], m["v"] = a.T, a.Int
	case "f32", "f64", "str":
		m["t"], m["v"] = a.T, a.Str
	case "jnum":
		m["v"] = a.Str
	case "ptr":
		m["to"] = a.To
	case "list":
		l := a.List
		if l == nil {
			l = []AV{}
		}
		m["t"], m["arr"], m["et"], m["v"] = a.T, a.Arr, a.Et, l
		if a.Bs != nil {
			m["bs"] = *a.Bs
		}
	case "map":
		e := a.Ents
		if e == nil {
			e = []Entry{}
		}
		m["t"], m["kt"], m["et"], m["v"] = a.T, a.Kt, a.Et, e
	case "struct":
		f := a.F
		if f == nil {
			f = []Field{}
		}
		m["t"], m["f"] = a.T, f
	case "opaque":
		m["kind"] = a.Kind
	default:
		return nil, fmt.Errorf("av: unknown k %q", a.K)
	}
	return json.Marshal(m)
}

func limbs(u uint64) [4]int {
	return [4]int{int(u & 0xffff), int(u >> 16 & 0xffff), int(u >> 32 & 0xffff), int(u >> 48 & 0xffff)}
}

// IntOf / UintOf build the exact 64-bit representation used by the spec.
func IntOf(i int64) IntV {
	if i < 0 {
		return IntV{Neg: true, M: limbs(uint64(-(i + 1)) + 1)}
	}
	return IntV{M: limbs(uint64(i))}
}
func UintOf(u uint64) IntV { return IntV{M: limbs(u)} }

func F64Bits(f float64) string {
	if f != f {
		return "nan"
	}
	return fmt.Sprintf("%016x", math.Float64bits(f))
}
func F32Bits(f float32) string {
	if f != f {
		return "nan"
	}
	return fmt.Sprintf("%08x", math.Float32bits(f))
}

var jsonNumberType = reflect.TypeOf(json.Number(""))

// TypeOf projects a static type.
func TypeOf(t reflect.Type) *Type {
	switch t.Kind() {
	case reflect.Interface:
		return &Type{C: "iface", T: t.String()}
	case reflect.Bool:
		return &Type{C: "bool", T: t.String()}
	case reflect.Int, reflect.Int8, reflect.Int16, reflect.Int32, reflect.Int64:
		return &Type{C: "int", T: t.String(), Bits: t.Bits()}
	case reflect.Uint, reflect.Uint8, reflect.Uint16, reflect.Uint32, reflect.Uint64:
		return &Type{C: "uint", T: t.String(), Bits: t.Bits()}
	case reflect.Float32:
		return &Type{C: "f32", T: t.String()}
	case reflect.Float64:
		return &Type{C: "f64", T: t.String()}
	case reflect.String:
		return &Type{C: "str", T: t.String()}
	case reflect.Ptr:
		return &Type{C: "ptr", T: t.String(), To: TypeOf(t.Elem())}
	case reflect.Slice, reflect.Array:
		return &Type{C: "list", T: t.String()}
	case reflect.Map:
		return &Type{C: "map", T: t.String()}
	case reflect.Struct:
		return &Type{C: "struct", T: t.String()}
	default:
		return &Type{C: "opaque", T: t.String(), Kind: t.Kind().String()}
	}
}

func tname(t reflect.Type) string { return t.String() }

// Abstract projects a value. Interfaces are transparent (an interface-typed
// slot holds the AV of its dynamic value, or nil).
func Abstract(v reflect.Value) AV {
	if !v.IsValid() {
		return AV{K: "nil"}
	}
	t := v.Type()
	switch v.Kind() {
	case reflect.Interface:
		if v.IsNil() {
			return AV{K: "nil"}
		}
		return Abstract(v.Elem())
	case reflect.Bool:
		return AV{K: "bool", T: tname(t), Bool: v.Bool()}
	case reflect.Int, reflect.Int8, reflect.Int16, reflect.Int32, reflect.Int64:
		return AV{K: "int", T: tname(t), Int: IntOf(v.Int())}
	case reflect.Uint, reflect.Uint8, reflect.Uint16, reflect.Uint32, reflect.Uint64:
		return AV{K: "uint", T: tname(t), Int: UintOf(v.Uint())}
	case reflect.Float32:
		return AV{K: "f32", T: tname(t), Str: F32Bits(float32(v.Float()))}
	case reflect.Float64:
		return AV{K: "f64", T: tname(t), Str: F64Bits(v.Float())}
	case reflect.String:
		if t == jsonNumberType {
			return AV{K: "jnum", Str: v.String()}
		}
		return AV{K: "str", T: tname(t), Str: v.String()}
	case reflect.Ptr:
		if v.IsNil() {
			return AV{K: "nilptr"}
		}
		to := Abstract(v.Elem())
		return AV{K: "ptr", To: &to}
	case reflect.Slice, reflect.Array:
		a := AV{K: "list", T: tname(t), Arr: v.Kind() == reflect.Array, Et: TypeOf(t.Elem())}
		for i := 0; i < v.Len(); i++ {
			a.List = append(a.List, Abstract(v.Index(i)))
		}
		if v.Kind() == reflect.Slice && t.Elem() == reflect.TypeOf(byte(0)) {
			s := string(v.Bytes())
			a.Bs = &s
		}
		return a
	case reflect.Map:
		a := AV{K: "map", T: tname(t), Kt: TypeOf(t.Key()), Et: TypeOf(t.Elem())}
		keys := v.MapKeys()
		for _, k := range keys {
			a.Ents = append(a.Ents, Entry{Key: Abstract(k), Val: Abstract(v.MapIndex(k))})
		}
		sort.SliceStable(a.Ents, func(i, j int) bool { return keyLess(a.Ents[i].Key, a.Ents[j].Key) })
		return a
	case reflect.Struct:
		a := AV{K: "struct", T: tname(t)}
		for i := 0; i < t.NumField(); i++ {
			f := t.Field(i)
			tags := map[string]string{}
			for _, tn := range []string{"bexpr", "json", "pointer"} {
				if tv, ok := f.Tag.Lookup(tn); ok {
					tags[tn] = tv
				}
			}
			a.F = append(a.F, Field{N: f.Name, Tags: tags, Exp: f.PkgPath == "", V: Abstract(v.Field(i))})
		}
		return a
	default:
		return AV{K: "opaque", Kind: v.Kind().String()}
	}
}

// keyLess orders map entries: byte-wise for strings (the order the evaluator
// must use), and some fixed total order for everything else.
func keyLess(a, b AV) bool {
	if a.K != b.K {
		return a.K < b.K
	}
	switch a.K {
	case "str", "jnum", "f32", "f64":
		return a.Str < b.Str
	case "bool":
		return !a.Bool && b.Bool
	case "int", "uint":
		if a.Int.Neg != b.Int.Neg {
			return a.Int.Neg
		}
		for i := 3; i >= 0; i-- {
			if a.Int.M[i] != b.Int.M[i] {
				return (a.Int.M[i] < b.Int.M[i]) != a.Int.Neg
			}
		}
		return false
	}
	ja, _ := json.Marshal(a)
	jb, _ := json.Marshal(b)
	return string(ja) < string(jb)
}

// Of is Abstract(reflect.ValueOf(x)).
func Of(x interface{}) AV { return Abstract(reflect.ValueOf(x)) }
