module verif/harness

go 1.18

require github.com/hashicorp/go-bexpr v0.0.0

require (
	github.com/mitchellh/mapstructure v1.4.1 // indirect
	github.com/mitchellh/pointerstructure v1.2.1 // indirect
)

replace github.com/hashicorp/go-bexpr => /repo
