// Package expr holds the expression trees exchanged with the TLA+
// specification, renders them to bexpr source text and converts the syntax
// trees returned by the real parser back into the same form.
package expr

import (
	"fmt"
	"regexp"
	"strconv"
	"strings"

	"github.com/hashicorp/go-bexpr/grammar"
)

type Sel struct {
	Ty   string   `json:"ty"` // bexpr | ptr
	Path []string `json:"path"`
}

type Expr struct {
	T    string `json:"t"` // match not and or coll
	Sel  *Sel   `json:"sel,omitempty"`
	Op   string `json:"op,omitempty"`
	Val  string `json:"val"`
	HV   bool   `json:"hv"`
	E    *Expr  `json:"e,omitempty"`
	L    *Expr  `json:"l,omitempty"`
	R    *Expr  `json:"r,omitempty"`
	Mode string `json:"mode"`
	N1   string `json:"n1"`
	N2   string `json:"n2"`
	Src  string `json:"src,omitempty"` // if set, this text is used instead of a rendering of the tree (which must be what it parses to)
}

var (
	identRe     = regexp.MustCompile(`^[a-zA-Z][a-zA-Z0-9_/]*$`)
	digitsRe    = regexp.MustCompile(`^[0-9]+$`)
	segRe       = regexp.MustCompile(`^[\pL\pN\-_.~:|]+$`)
	ptrLitRe    = regexp.MustCompile(`^(/[\pL\pN\-_.~:|]+)*$`)
	bareIdentRe = regexp.MustCompile(`^[a-zA-Z][a-zA-Z0-9_/]*(\.([a-zA-Z][a-zA-Z0-9_/]*|[0-9]+))*$`)
	numRe       = regexp.MustCompile(`^-?(0|[1-9][0-9]*)(\.[0-9]+)?$`)
)

var keywords = map[string]bool{"not": true, "and": true, "or": true, "in": true, "is": true, "any": true, "all": true, "as": true, "contains": true, "matches": true, "empty": true}

// Style selects among the spellings the grammar admits.
type Style struct {
	Sel   string `json:"sel"`   // "auto" (dotted where possible, brackets otherwise), "bracket", "backtick", "pointer"
	Lit   string `json:"lit"`   // "auto" (double-quoted unless that would be read as a JSON Pointer), "raw", "bare", "dq"
	WS    string `json:"ws"`    // "" single blanks, "wide" tabs/newlines/double blanks, "tight" no blanks where optional
	Paren int    `json:"paren"` // redundant parentheses around every sub-expression (0..2)
	Cont  bool   `json:"cont"`  // spell in / not in as contains / not contains
	DNeg  int    `json:"dneg"`  // spell every match m as `not not m` (1) or `not (not m)` (2): the parser folds double negation
}

// Quote spells s as a Go string literal in the given style, if it can.
func Quote(s string, style string) (string, error) {
	switch style {
	case "raw":
		if strings.ContainsAny(s, "`\r") || !validUTF8NoBOM(s) {
			return "", fmt.Errorf("not expressible as a raw string")
		}
		return "`" + s + "`", nil
	case "bare":
		if !numRe.MatchString(s) {
			return "", fmt.Errorf("not a number literal")
		}
		return s, nil
	case "ident":
		// a bare word: read as a selector whose dotted spelling is the value
		if !bareIdentRe.MatchString(s) {
			return "", fmt.Errorf("not a bare word")
		}
		for _, p := range strings.Split(s, ".") {
			if keywords[p] {
				return "", fmt.Errorf("keyword")
			}
		}
		return s, nil
	case "dq":
		// the grammar ends a double-quoted literal at the first '"', escaped or not
		if strings.Contains(s, `"`) {
			return "", fmt.Errorf("not expressible as a double-quoted string")
		}
		return strconv.Quote(s), nil
	default: // auto
		if (ptrLitRe.MatchString(s) && s != "") || strings.Contains(s, `"`) {
			return Quote(s, "raw")
		}
		return strconv.Quote(s), nil
	}
}

func validUTF8NoBOM(s string) bool {
	for _, r := range s {
		if r == 0xFFFD || r == 0xFEFF {
			return false
		}
	}
	return true
}

func escPtr(p string) string {
	return strings.ReplaceAll(strings.ReplaceAll(p, "~", "~0"), "/", "~1")
}

// RenderSel spells a selector.
func RenderSel(s *Sel, style string) (string, error) {
	if len(s.Path) == 0 {
		return "", fmt.Errorf("empty path")
	}
	pointer := func() (string, error) {
		var b strings.Builder
		b.WriteString(`"`)
		for _, p := range s.Path {
			e := escPtr(p)
			if !segRe.MatchString(e) {
				return "", fmt.Errorf("part %q not expressible in a JSON Pointer selector", p)
			}
			b.WriteString("/" + e)
		}
		b.WriteString(`"`)
		return b.String(), nil
	}
	if style == "pointer" || s.Ty == "ptr" || s.Path[0] == "not" {
		// a selector that starts with the word not would be read as the operator
		return pointer()
	}
	if !identRe.MatchString(s.Path[0]) {
		return "", fmt.Errorf("first part %q is not an identifier", s.Path[0])
	}
	var b strings.Builder
	b.WriteString(s.Path[0])
	for _, p := range s.Path[1:] {
		switch {
		case style == "auto" && (identRe.MatchString(p) || digitsRe.MatchString(p)):
			b.WriteString("." + p)
		case style == "backtick":
			q, err := Quote(p, "raw")
			if err != nil {
				return "", err
			}
			b.WriteString("[" + q + "]")
		default:
			q, err := Quote(p, "dq")
			if err != nil {
				if q, err = Quote(p, "raw"); err != nil {
					return "", err
				}
			}
			b.WriteString("[" + q + "]")
		}
	}
	return b.String(), nil
}

var opText = map[string]string{"==": "==", "!=": "!=", "in": "in", "notin": "not in", "empty": "is empty", "notempty": "is not empty", "matches": "matches", "notmatches": "not matches"}

// Render spells the tree as bexpr source in the given style.
func Render(e *Expr, st Style) (string, error) {
	if e.Src != "" {
		return e.Src, nil
	}
	sp, osp := " ", " "
	switch st.WS {
	case "wide":
		sp, osp = " \t\n ", "\n \t"
	case "tight":
		osp = ""
	}
	return render(e, st, sp, osp, 0)
}

func words(op, sp string) string { return strings.ReplaceAll(op, " ", sp) }

// precedence levels: 0 or, 1 and, 2 not / primary.  sp is a mandatory blank, osp an optional one.
func render(e *Expr, st Style, sp, osp string, ctx int) (string, error) {
	wrap := func(s string, n int) string {
		for i := 0; i < n; i++ {
			s = "(" + osp + s + osp + ")"
		}
		return s
	}
	switch e.T {
	case "match":
		sel, err := RenderSel(e.Sel, pick(st.Sel, e.Sel))
		if err != nil {
			return "", err
		}
		var out string
		switch e.Op {
		case "empty", "notempty":
			out = sel + sp + words(opText[e.Op], sp)
		case "in", "notin":
			v, err := Quote(e.Val, litStyle(st.Lit, e.Val))
			if err != nil {
				return "", err
			}
			if st.Cont {
				out = sel + sp + words(strings.Replace(opText[e.Op], "in", "contains", 1), sp) + sp + v
			} else {
				out = v + sp + words(opText[e.Op], sp) + sp + sel
			}
		case "==", "!=":
			v, err := Quote(e.Val, litStyle(st.Lit, e.Val))
			if err != nil {
				return "", err
			}
			out = sel + osp + opText[e.Op] + osp + v
		default:
			v, err := Quote(e.Val, litStyle(st.Lit, e.Val))
			if err != nil {
				return "", err
			}
			out = sel + sp + words(opText[e.Op], sp) + sp + v
		}
		out = wrap(out, st.Paren)
		switch st.DNeg {
		case 1:
			out = "not" + sp + "not" + sp + out
		case 2:
			out = "not" + sp + "(" + osp + "not" + sp + out + osp + ")"
		}
		if st.DNeg != 0 && ctx > 2 {
			out = "(" + out + ")"
		}
		return out, nil
	case "not":
		in, err := render(e.E, st, sp, osp, 2)
		if err != nil {
			return "", err
		}
		out := "not" + sp + in
		if st.Paren > 0 {
			return wrap(out, st.Paren), nil
		}
		return out, nil
	case "and", "or":
		lv := 0
		if e.T == "and" {
			lv = 1
		}
		// the grammar is right-recursive: the left operand must bind tighter
		l, err := render(e.L, st, sp, osp, lv+1)
		if err != nil {
			return "", err
		}
		r, err := render(e.R, st, sp, osp, lv)
		if err != nil {
			return "", err
		}
		out := l + sp + e.T + sp + r
		if ctx > lv || st.Paren > 0 {
			n := st.Paren
			if n == 0 {
				n = 1
			}
			return wrap(out, n), nil
		}
		return out, nil
	case "coll":
		sel, err := RenderSel(e.Sel, pick(st.Sel, e.Sel))
		if err != nil {
			return "", err
		}
		in, err := render(e.E, st, sp, osp, 0)
		if err != nil {
			return "", err
		}
		var bind string
		switch e.Mode {
		case "default":
			bind = e.N1
		case "index":
			bind = e.N1 + osp + "," + osp + "_"
		case "value":
			bind = "_" + osp + "," + osp + e.N2
		case "both":
			bind = e.N1 + osp + "," + osp + e.N2
		}
		// a bare number must be followed by a blank, ")" or the end of input
		cl := osp
		if cl == "" && len(in) > 0 && in[len(in)-1] >= '0' && in[len(in)-1] <= '9' {
			cl = " "
		}
		out := e.Op + sp + sel + sp + "as" + sp + bind + osp + "{" + osp + in + cl + "}"
		// a quantifier is only reachable as a whole or-operand, the whole input, or inside parentheses
		if ctx > 0 || st.Paren > 0 {
			n := st.Paren
			if n == 0 {
				n = 1
			}
			return wrap(out, n), nil
		}
		return out, nil
	}
	return "", fmt.Errorf("unknown node type %q", e.T)
}

func pick(style string, s *Sel) string {
	if style == "" {
		return "auto"
	}
	return style
}

func litStyle(style, v string) string {
	if style == "" {
		return "auto"
	}
	if style == "bare" && !numRe.MatchString(v) {
		if _, err := Quote(v, "ident"); err == nil {
			return "ident"
		}
		return "auto"
	}
	if style == "raw" {
		if _, err := Quote(v, "raw"); err != nil {
			return "auto"
		}
	}
	return style
}

var opName = map[grammar.MatchOperator]string{
	grammar.MatchEqual: "==", grammar.MatchNotEqual: "!=", grammar.MatchIn: "in", grammar.MatchNotIn: "notin",
	grammar.MatchIsEmpty: "empty", grammar.MatchIsNotEmpty: "notempty", grammar.MatchMatches: "matches", grammar.MatchNotMatches: "notmatches",
}

func selOf(s grammar.Selector) *Sel {
	ty := "unknown"
	switch s.Type {
	case grammar.SelectorTypeBexpr:
		ty = "bexpr"
	case grammar.SelectorTypeJsonPointer:
		ty = "ptr"
	}
	p := append([]string{}, s.Path...)
	return &Sel{Ty: ty, Path: p}
}

// FromAST converts a parser-produced tree.
func FromAST(x grammar.Expression) *Expr {
	switch n := x.(type) {
	case *grammar.UnaryExpression:
		return &Expr{T: "not", E: FromAST(n.Operand)}
	case *grammar.BinaryExpression:
		t := "and"
		if n.Operator == grammar.BinaryOpOr {
			t = "or"
		} else if n.Operator != grammar.BinaryOpAnd {
			t = "binary?"
		}
		return &Expr{T: t, L: FromAST(n.Left), R: FromAST(n.Right)}
	case *grammar.MatchExpression:
		op, ok := opName[n.Operator]
		if !ok {
			op = fmt.Sprintf("op%d", int(n.Operator))
		}
		e := &Expr{T: "match", Sel: selOf(n.Selector), Op: op}
		if n.Value != nil {
			e.HV = true
			e.Val = n.Value.Raw
		}
		return e
	case *grammar.CollectionExpression:
		e := &Expr{T: "coll", Sel: selOf(n.Selector), E: FromAST(n.Inner)}
		switch n.Op {
		case grammar.CollectionOpAll:
			e.Op = "all"
		case grammar.CollectionOpAny:
			e.Op = "any"
		default:
			e.Op = string(n.Op)
		}
		switch n.NameBinding.Mode {
		case grammar.CollectionBindDefault:
			e.Mode, e.N1 = "default", n.NameBinding.Default
		case grammar.CollectionBindIndex:
			e.Mode, e.N1 = "index", n.NameBinding.Index
		case grammar.CollectionBindValue:
			e.Mode, e.N2 = "value", n.NameBinding.Value
		case grammar.CollectionBindIndexAndValue:
			e.Mode, e.N1, e.N2 = "both", n.NameBinding.Index, n.NameBinding.Value
		default:
			e.Mode = string(n.NameBinding.Mode)
		}
		if n.NameBinding.Mode != grammar.CollectionBindDefault && n.NameBinding.Default != "" {
			e.Mode += "+default"
		}
		return e
	case nil:
		return &Expr{T: "nil"}
	}
	return &Expr{T: fmt.Sprintf("%T", x)}
}

// Same compares two trees; selector types are compared only when strict.
func Same(a, b *Expr, strict bool) bool {
	if a == nil || b == nil {
		return a == b
	}
	if a.T != b.T || a.Op != b.Op || a.Mode != b.Mode || a.N1 != b.N1 || a.N2 != b.N2 {
		return false
	}
	if a.T == "match" {
		hv := a.Op != "empty" && a.Op != "notempty"
		if hv && a.Val != b.Val {
			return false
		}
	}
	if (a.Sel == nil) != (b.Sel == nil) {
		return false
	}
	if a.Sel != nil {
		if strict && a.Sel.Ty != b.Sel.Ty {
			return false
		}
		if len(a.Sel.Path) != len(b.Sel.Path) {
			return false
		}
		for i := range a.Sel.Path {
			if a.Sel.Path[i] != b.Sel.Path[i] {
				return false
			}
		}
	}
	return Same(a.E, b.E, strict) && Same(a.L, b.L, strict) && Same(a.R, b.R, strict)
}

// Keyword reports whether s would be read as a keyword of the language.
func Keyword(s string) bool { return keywords[s] }
