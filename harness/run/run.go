// Package run executes the real go-bexpr code and records what it did.
package run

import (
	"fmt"
	"reflect"

	bexpr "github.com/hashicorp/go-bexpr"
	"verif/harness/av"
	"verif/harness/zoo"
)

// Cfg is an evaluator configuration of the model family.
type Cfg struct {
	Name    string `json:"name"`
	Tag     string `json:"tag"`  // value handed to WithTagName; "bexpr" is the default
	Hook    string `json:"hook"` // none id unwrap nilret
	Unknown av.AV  `json:"unknown"`
	unk     interface{}
	hasUnk  bool
	SetTag  bool `json:"settag"` // pass WithTagName explicitly
}

func mkCfg(name, tag, hook string, hasUnk bool, unk interface{}) Cfg {
	c := Cfg{Name: name, Tag: tag, Hook: hook, hasUnk: hasUnk, unk: unk, SetTag: tag != "bexpr"}
	if hasUnk {
		c.Unknown = av.Of(unk)
	} else {
		c.Unknown = av.AV{K: "none"}
	}
	return c
}

// Cfgs is the fixed list of configurations; index 0 is the default.
func Cfgs() []Cfg {
	return []Cfg{
		mkCfg("default", "bexpr", "none", false, nil),
		mkCfg("json", "json", "none", false, nil),
		mkCfg("unk-str", "bexpr", "none", true, "unk"),
		mkCfg("unk-empty", "bexpr", "none", true, ""),
		mkCfg("unk-int", "bexpr", "none", true, 0),
		mkCfg("unk-nil", "bexpr", "none", true, nil),
		mkCfg("unk-list", "bexpr", "none", true, []interface{}{"unk", 1}),
		mkCfg("unk-map", "bexpr", "none", true, map[string]interface{}{"k": "v"}),
		mkCfg("json-unk", "json", "none", true, "unk"),
		mkCfg("id", "bexpr", "id", false, nil),
		mkCfg("unwrap", "bexpr", "unwrap", false, nil),
		mkCfg("nilret", "bexpr", "nilret", false, nil),
		mkCfg("pointer", "", "none", false, nil),
		mkCfg("unk-bool", "bexpr", "none", true, true),
		mkCfg("unk-f64", "bexpr", "none", true, 2.5),
		mkCfg("nildef", "bexpr", "nildef", false, nil),
		mkCfg("label", "bexpr", "label", false, nil),
	}
}

var wrapperType = reflect.TypeOf(zoo.Wrapper{})
var nstringType = reflect.TypeOf(zoo.NString(""))

// HookFn returns the value transformation hook of the given name.
func HookFn(name string) bexpr.ValueTransformationHookFn {
	switch name {
	case "id":
		return func(v reflect.Value) reflect.Value { return v }
	case "unwrap":
		return func(v reflect.Value) reflect.Value {
			d := v
			for d.IsValid() && (d.Kind() == reflect.Interface || d.Kind() == reflect.Ptr) {
				if d.IsNil() {
					return v
				}
				d = d.Elem()
			}
			if d.IsValid() && d.Type() == wrapperType {
				return d.Field(0)
			}
			return v
		}
	case "nilret":
		return func(v reflect.Value) reflect.Value { return reflect.ValueOf(nil) }
	case "label":
		// renders scalars of one named type as text (an enum shown by its label)
		return func(v reflect.Value) reflect.Value {
			d := v
			for d.IsValid() && d.Kind() == reflect.Interface && !d.IsNil() {
				d = d.Elem()
			}
			if d.IsValid() && d.Type() == nstringType {
				return reflect.ValueOf("n:" + d.String())
			}
			return v
		}
	case "nildef":
		// supplies a default for nil pointers and nil interfaces (a hook whose whole job is to replace such values)
		return func(v reflect.Value) reflect.Value {
			d := v
			for d.IsValid() && d.Kind() == reflect.Interface && !d.IsNil() {
				d = d.Elem()
			}
			if d.IsValid() && (d.Kind() == reflect.Interface || d.Kind() == reflect.Ptr) && d.IsNil() {
				return reflect.ValueOf("dflt")
			}
			return v
		}
	}
	return nil
}

// Options builds the option list of a configuration.
func (c Cfg) Options() []bexpr.Option {
	var o []bexpr.Option
	if c.SetTag {
		o = append(o, bexpr.WithTagName(c.Tag))
	}
	if c.Hook != "none" {
		o = append(o, bexpr.WithHookFn(HookFn(c.Hook)))
	}
	if c.hasUnk {
		o = append(o, bexpr.WithUnknownValue(c.unk))
	}
	return o
}

// Outcome is T, F or E, or a description of something that must never happen.
type Outcome struct {
	O     string `json:"o"` // T F E | PANIC | TRUE+ERR | CREATE-ERR
	Err   string `json:"err,omitempty"`
	Panic string `json:"panic,omitempty"`
}

// Eval runs Evaluate, recovering panics.
func Eval(ev *bexpr.Evaluator, datum interface{}) (out Outcome) {
	defer func() {
		if r := recover(); r != nil {
			out = Outcome{O: "PANIC", Panic: fmt.Sprint(r)}
		}
	}()
	b, err := ev.Evaluate(datum)
	switch {
	case err != nil && b:
		return Outcome{O: "TRUE+ERR", Err: err.Error()}
	case err != nil:
		return Outcome{O: "E", Err: err.Error()}
	case b:
		return Outcome{O: "T"}
	}
	return Outcome{O: "F"}
}

// Create runs CreateEvaluator, recovering panics.
func Create(src string, opts ...bexpr.Option) (ev *bexpr.Evaluator, out Outcome) {
	defer func() {
		if r := recover(); r != nil {
			ev, out = nil, Outcome{O: "PANIC", Panic: fmt.Sprint(r)}
		}
	}()
	ev, err := bexpr.CreateEvaluator(src, opts...)
	if err != nil {
		return nil, Outcome{O: "CREATE-ERR", Err: err.Error()}
	}
	if ev == nil {
		return nil, Outcome{O: "CREATE-NEITHER"}
	}
	return ev, Outcome{O: "ok"}
}
