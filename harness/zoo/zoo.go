// Package zoo is the fixed universe of Go types and documents the checks
// evaluate expressions against. Every document is built afresh on each call so
// that no two runs share memory.
package zoo

import (
	"encoding/json"
	"math"
	"strings"
)

type (
	NBool   bool
	NInt    int
	NInt8   int8
	NInt64  int64
	NUint   uint
	NUint8  uint8
	NUint64 uint64
	NF32    float32
	NF64    float64
	NString string
	NSlice  []int
	NISlice []interface{}
	NMap    map[string]int
	NBytes  []byte
)

// Flat has one field of every scalar kind (static typing, unlike a map[string]interface{}).
type Flat struct {
	B    bool
	I    int
	I8   int8
	I16  int16
	I32  int32
	I64  int64
	U    uint
	U8   uint8
	U16  uint16
	U32  uint32
	U64  uint64
	F32  float32
	F64  float64
	S    string
	NS   NString
	NI   NInt
	NB   NBool
	PI   *int
	PS   *string
	PPI  **int
	NilP *int
	Any  interface{}
	JN   json.Number
}

// Tagged exercises renaming, hiding and non-exported fields under two tag names.
type Tagged struct {
	Plain   string
	Renamed string `bexpr:"ren" json:"jren"`
	Hidden  string `bexpr:"-" json:"jhid"`
	JHidden string `json:"-"`
	Opt     string `bexpr:"opt,omitempty"`
	OnlyOpt string `bexpr:",omitempty"`
	Swap    string `bexpr:"Plain2"`
	Plain2  string `bexpr:"Swap"`
	private string
	Inner   TagInner
	PInner  *TagInner
	List    []TagInner
	M       map[string]TagInner
	Embedded
	hiddenEmb
}

type TagInner struct {
	X      int
	Secret string `bexpr:"-" json:"sec"`
	low    int
	Name   string `bexpr:"name" json:"-"`
}

type Embedded struct {
	EmbField string
}

type hiddenEmb struct {
	Promoted string
}

// Wrapper is what the "unwrap" value transformation hook looks through.
type Wrapper struct {
	Inner interface{}
}

func NewTagged(secret string) Tagged {
	in := TagInner{X: 1, Secret: secret, low: len(secret), Name: "n1"}
	return Tagged{
		Plain: "plain", Renamed: "renamed", Hidden: secret, JHidden: secret + "j", Opt: "opt", OnlyOpt: "oo",
		Swap: "swap", Plain2: "plain2", private: secret + "p",
		Inner: in, PInner: &TagInner{X: 2, Secret: secret, low: 7, Name: "n2"},
		List:     []TagInner{in, {X: 3, Secret: secret + "3", Name: "n3"}},
		M:        map[string]TagInner{"a": in, "b": {X: 4, Secret: "s4" + secret, Name: "n4"}},
		Embedded: Embedded{EmbField: "emb"}, hiddenEmb: hiddenEmb{Promoted: secret},
	}
}

func ip(i int) *int       { return &i }
func sp(s string) *string { return &s }
func pip(i int) **int     { p := &i; return &p }

func NewFlat() Flat {
	return Flat{B: true, I: -5, I8: -128, I16: 300, I32: -70000, I64: math.MaxInt64, U: 7, U8: 255, U16: 65535, U32: 4294967295,
		U64: math.MaxUint64, F32: 1.5, F64: 0.1, S: "hello", NS: "named", NI: 42, NB: false, PI: ip(9), PS: sp("ptr"), PPI: pip(11),
		NilP: nil, Any: 3.5, JN: json.Number("42")}
}

// Scalars is the dynamically typed counterpart of Flat plus odd kinds.
func Scalars() map[string]interface{} {
	return map[string]interface{}{
		"b": true, "nb": NBool(false), "i": -5, "i8": int8(-128), "i16": int16(300), "i32": int32(-70000), "i64": int64(math.MaxInt64),
		"imin": int64(math.MinInt64), "u": uint(7), "u8": uint8(255), "u16": uint16(65535), "u32": uint32(4294967295), "u64": uint64(math.MaxUint64),
		"f32": float32(1.5), "f64": 0.1, "f32one": float32(1), "nf32": NF32(1), "pf32": func() *float32 { f := float32(1); return &f }(), "i15": 15, "u17": uint(17), "f64one": 1.0, "big": float64(9007199254740993), "i53": int64(9007199254740993), "nz": math.Copysign(0, -1), "nan": math.NaN(),
		"inf": math.Inf(1), "f16m": float32(16777216), "sub": 5e-324,
		"s": "hello", "ns": NString("named"), "es": "", "us": "héllo wörld", "num": "42", "sl": "/usr/bin",
		"jn": json.Number("42"), "jf": json.Number("1.5"), "jbig": json.Number("9007199254740993"), "jhuge": json.Number("1e400"), "jbad": json.Number("abc"),
		"nil": nil, "pi": ip(9), "ps": sp("ptr"), "ppi": pip(11), "np": (*int)(nil), "pjn": func() *json.Number { j := json.Number("7"); return &j }(),
		"ch": make(chan int), "fn": func() {}, "cx": complex(1, 2), "up": uintptr(5), "by": []byte("abc"), "nby": NBytes("xyz"),
		"st": struct{ A int }{1}, "ni": NInt(42), "nf": NF64(2.5), "nu8": NUint8(200),
	}
}

// Containers holds lists and maps of every element shape.
func Containers() map[string]interface{} {
	one, two := 1, 2
	p1 := &one
	return map[string]interface{}{
		"li":   []int{1, 2, 3},
		"le":   []int{},
		"lnil": []int(nil),
		"arr":  [3]int{4, 5, 6},
		"arr0": [0]string{},
		"ls":   []string{"a", "bc", ""},
		"lb":   []bool{true},
		"lf":   []float64{0.5, 2},
		"lf32": []float32{0.1, 16777216},
		"lu8":  []uint8{1, 2},
		"li8":  []int8{-1, 127},
		"lns":  []NString{"x", "y"},
		"nsl":  NSlice{7, 8},
		"any":  []interface{}{1, "x", 2.5, true, nil, int8(3), uint(4), json.Number("6"), ip(5), (*int)(nil)},
		"anye": []interface{}{},
		"anyz": []interface{}{8080, 0, 0.0, 1.5, false, true, "", "s", uint8(0), int64(0)},
		"anyf": []interface{}{8080.0, 0.0, 443.0},
		"anyt": []interface{}{true, false},
		"anyn": []interface{}{nil, nil},
		"arri": [2]interface{}{7.0, 0.0},
		"anyb": []interface{}{"x", []int{1}},
		"anys": []interface{}{struct{}{}},
		"lp":   []*int{&one, nil, &two},
		"lpp":  []**int{&p1},
		"lst":  []TagInner{{X: 1}},
		"lste": []TagInner{},
		"ll":   [][]int{{1}, {}},
		"lm":   []map[string]int{{"k": 1}},
		"ms":   map[string]string{"a": "1", "b": "", "": "empty"},
		"mi":   map[string]int{"one": 1, "two": 2},
		"me":   map[string]int{},
		"mnil": map[string]int(nil),
		"many": map[string]interface{}{"n": nil, "i": 1, "s": "x", "l": []interface{}{1}, "m": map[string]interface{}{"z": 0}},
		"mim":  map[int]string{5: "five", -1: "neg"},
		"mi8":  map[int8]string{5: "five"},
		"mu":   map[uint16]bool{9: true},
		"mb":   map[bool]string{true: "yes"},
		"mf":   map[float64]string{0.5: "half"},
		"mns":  map[NString]int{"x": 1, "y": 2, "z": 0},
		"mjn":  map[json.Number]int{"1": 1},
		"odd":  map[string]interface{}{"007": "bond", "7": "seven", "a~1b": "tilde", "a/b": "slash", "a~b": "t2", "010": "oct", "": "empty", " sp ": "spaces", "Key": "upper", "key": "lower"},
		"lodd": []string{"i0", "i1", "i2", "i3", "i4", "i5", "i6", "i7", "i8", "i9", "i10"},
		"mix3": map[string]interface{}{"a": map[string]interface{}{"V": 1}, "b": map[string]interface{}{"V": []int{1}}, "c": map[string]interface{}{"V": 2}},
		"pnl":  (*[]string)(nil),
		"pnm":  (*map[string]int)(nil),
		"f32s": []float32{1, 16777216},
		"mf32": map[float32]string{1: "one"},
		"mif":  map[interface{}]int{"x": 1, 5: 2, NString("n"): 3},
		"mst":  map[struct{ A int }]int{{1}: 1},
		"mp":   map[string]*int{"p": &one, "n": nil},
		"nm":   NMap{"q": 1},
		"pl":   &[]int{1, 2},
		"pm":   &map[string]int{"k": 1},
		"str":  "abcabc",
	}
}

// Records is the nested document used for quantifiers.
func Records() map[string]interface{} {
	return map[string]interface{}{
		"top": 5,
		"x":   "shadowed-top",
		"recs": []interface{}{
			map[string]interface{}{"id": 1, "tags": []interface{}{"a", "b"}, "attr": map[string]interface{}{"k": "v", "n": 1}},
			map[string]interface{}{"id": 2, "tags": []interface{}{}, "attr": map[string]interface{}{}},
			map[string]interface{}{"id": 3, "tags": []interface{}{"b", 7}, "attr": map[string]interface{}{"k": 5}},
		},
		"byname": map[string]interface{}{
			"a": map[string]interface{}{"x": 1, "l": []int{1, 2}},
			"b": 5,
			"c": map[string]interface{}{"x": 2},
		},
		"nums":  []int{3, 1, 2},
		"empty": []int{},
		"grid":  [][]int{{1, 2}, {3}, {}},
		"mm":    map[string]map[string]int{"r1": {"c1": 1, "c2": 2}, "r2": {}},
		"long":  longList(17, 16),
	}
}

func longList(n, hot int) []int {
	l := make([]int, n)
	l[hot] = 1
	return l
}

// JSONDoc decodes a document the way callers of go-bexpr typically do.
func JSONDoc(useNumber bool) interface{} {
	const doc = `{"name":"web","port":8080,"ratio":0.25,"big":9007199254740993,"neg":-3,"on":true,"none":null,
	 "tags":["a","b",null,1,2.5,true],"meta":{"env":"prod","n":null,"nested":{"k":[1,{"z":"deep"}]}},"empty":{},"el":[],"s":"/usr/bin"}`
	dec := json.NewDecoder(strings.NewReader(doc))
	if useNumber {
		dec.UseNumber()
	}
	var v interface{}
	if err := dec.Decode(&v); err != nil {
		panic(err)
	}
	return v
}

// Wrapped puts Wrapper structs on the path for the unwrap hook.
func Wrapped() map[string]interface{} {
	return map[string]interface{}{
		"w":  Wrapper{Inner: map[string]interface{}{"a": 1, "s": "in"}},
		"pw": &Wrapper{Inner: []int{1, 2}},
		"ws": Wrapper{Inner: "str"},
		"m":  map[string]interface{}{"a": 1, "w": Wrapper{Inner: map[string]int{"k": 1}}},
	}
}

type Doc struct {
	Name string
	V    interface{}
}

// World returns the documents of a named world, freshly built.
func World(name string) []Doc {
	switch name {
	case "scalars":
		f := NewFlat()
		return []Doc{{"scalars", Scalars()}, {"flat", f}, {"pflat", &f}}
	case "containers":
		return []Doc{{"containers", Containers()}}
	case "records":
		return []Doc{{"records", Records()}}
	case "json":
		return []Doc{{"json", JSONDoc(false)}, {"jsonnum", JSONDoc(true)}}
	case "tagged":
		t := NewTagged("s3cr3t")
		return []Doc{{"tagged", t}, {"ptagged", &t}, {"mtagged", map[string]interface{}{"t": t, "l": []Tagged{t}}}}
	case "wrapped":
		return []Doc{{"wrapped", Wrapped()}}
	}
	return nil
}
