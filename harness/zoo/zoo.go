// Package zoo is the fixed universe of Go types and documents the checks
// evaluate expressions against. Every document is built afresh on each call so
// that no two runs share memory.
package zoo

import (
	"encoding/json"
	"math"
	"strings"
)

type (
	NBool   bool
	NInt    int
	NInt8   int8
	NInt64  int64
	NUint   uint
	NUint8  uint8
	NUint64 uint64
	NF32    float32
	NF64    float64
	NString string
	NSlice  []int
	NISlice []interface{}
	NMap    map[string]int
	NBytes  []byte
)

// Flat has one field of every scalar kind (static typing, unlike a map[string]interface{}).
type Flat struct {
	B    bool
	I    int
	I8   int8
	I16  int16
	I32  int32
	I64  int64
	U    uint
	U8   uint8
	U16  uint16
	U32  uint32
	U64  uint64
	F32  float32
	F64  float64
	S    string
	NS   NString
	NI   NInt
	NB   NBool
	PI   *int
	PS   *string
	PPI  **int
	NilP *int
	Any  interface{}
	JN   json.Number
}

// Tagged exercises renaming, hiding and non-exported fields under two tag names.
type Tagged struct {
	Plain   string
	Renamed string `bexpr:"ren" json:"jren"`
	Hidden  string `bexpr:"-" json:"jhid"`
	JHidden string `json:"-"`
	Opt     string `bexpr:"opt,omitempty"`
	OnlyOpt string `bexpr:",omitempty"`
	Swap    string `bexpr:"Plain2"`
	Plain2  string `bexpr:"Swap"`
	private string
	privmap map[string]interface{}
	privany interface{}
	Inner   TagInner
	PInner  *TagInner
	List    []TagInner
	M       map[string]TagInner
	Embedded
	hiddenEmb
}

type TagInner struct {
	X      int
	Secret string `bexpr:"-" json:"sec"`
	low    int
	Name   string `bexpr:"name" json:"-"`
}

type Embedded struct {
	EmbField string
}

type hiddenEmb struct {
	Promoted string
}

// Wrapper is what the "unwrap" value transformation hook looks through.
type Wrapper struct {
	Inner interface{}
}

// NewTagged builds a Tagged whose fields hidden under the bexpr tag hold sb, those hidden under the json tag hold
// sj, and the unexported ones hold sp: two values built with different sb (sj, sp) are indistinguishable to an
// evaluator using the bexpr (json, any) tag.
func NewTagged3(sb, sj, sp string) Tagged {
	in := TagInner{X: 1, Secret: sb, low: len(sp), Name: "n1" + sj}
	return Tagged{
		Plain: "plain", Renamed: "renamed", Hidden: sb, JHidden: sj, Opt: "opt", OnlyOpt: "oo",
		Swap: "swap", Plain2: "plain2", private: sp, privmap: map[string]interface{}{sp: 1}, privany: map[string]interface{}{"k": sp},
		Inner: in, PInner: &TagInner{X: 2, Secret: sb, low: 7 + len(sp), Name: "n2" + sj},
		List:     []TagInner{in, {X: 3, Secret: sb + "3", low: len(sp), Name: "n3" + sj}},
		M:        map[string]TagInner{"a": in, "b": {X: 4, Secret: "s4" + sb, low: len(sp), Name: "n4" + sj}},
		Embedded: Embedded{EmbField: "emb"}, hiddenEmb: hiddenEmb{Promoted: sp},
	}
}

func NewTagged(secret string) Tagged { return NewTagged3(secret, "", secret+"p") }

func secretPair(a, b Tagged, tag string) []Doc {
	a2, b2 := a, b
	return []Doc{{tag + "-a", a}, {tag + "-b", b}, {tag + "-pa", &a2}, {tag + "-pb", &b2},
		{tag + "-ma", map[string]interface{}{"t": a, "l": []Tagged{a}, "pl": []*Tagged{&a2}, "m": map[string]Tagged{"k": a}, "arr": [2]Tagged{a, a}, "parr": &[1]Tagged{a}}},
		{tag + "-mb", map[string]interface{}{"t": b, "l": []Tagged{b}, "pl": []*Tagged{&b2}, "m": map[string]Tagged{"k": b}, "arr": [2]Tagged{b, b}, "parr": &[1]Tagged{b}}}}
}

func ip(i int) *int       { return &i }
func sp(s string) *string { return &s }
func pip(i int) **int     { p := &i; return &p }

func NewFlat() Flat {
	return Flat{B: true, I: -5, I8: -128, I16: 300, I32: -70000, I64: math.MaxInt64, U: 7, U8: 255, U16: 65535, U32: 4294967295,
		U64: math.MaxUint64, F32: 1.5, F64: 0.1, S: "hello", NS: "named", NI: 42, NB: false, PI: ip(9), PS: sp("ptr"), PPI: pip(11),
		NilP: nil, Any: 3.5, JN: json.Number("42")}
}

// Scalars is the dynamically typed counterpart of Flat plus odd kinds.
func Scalars() map[string]interface{} {
	return map[string]interface{}{
		"b": true, "nb": NBool(false), "i": -5, "i8": int8(-128), "i16": int16(300), "i32": int32(-70000), "i64": int64(math.MaxInt64),
		"imin": int64(math.MinInt64), "u": uint(7), "u8": uint8(255), "u16": uint16(65535), "u32": uint32(4294967295), "u64": uint64(math.MaxUint64),
		"f32": float32(1.5), "f64": 0.1, "f32one": float32(1), "nf32": NF32(1), "pf32": func() *float32 { f := float32(1); return &f }(), "i15": 15, "u17": uint(17), "f64one": 1.0, "big": float64(9007199254740993), "i53": int64(9007199254740993), "nz": math.Copysign(0, -1), "nan": math.NaN(),
		"inf": math.Inf(1), "f16m": float32(16777216), "sub": 5e-324,
		"s": "hello", "ns": NString("named"), "es": "", "us": "héllo wörld", "num": "42", "sl": "/usr/bin",
		"jn": json.Number("42"), "jf": json.Number("1.5"), "jbig": json.Number("9007199254740993"), "jhuge": json.Number("1e400"), "jbad": json.Number("abc"),
		"nil": nil, "pi": ip(9), "ps": sp("ptr"), "ppi": pip(11), "np": (*int)(nil), "pjn": func() *json.Number { j := json.Number("7"); return &j }(),
		"ch": make(chan int), "fn": func() {}, "cx": complex(1, 2), "up": uintptr(5), "by": []byte("abc"), "nby": NBytes("xyz"),
		"st": struct{ A int }{1}, "ni": NInt(42), "nf": NF64(2.5), "nu8": NUint8(200),
		// keys that begin with (or contain) a word of the language
		"notes": "n1", "nothing": 0, "android": "a", "order": 2, "inside": "i", "island": "x", "anyone": 1, "allow": true, "asset": "as",
		"emptyish": "", "matchesx": "m", "containsx": "c", "not_": "u", "isnot": 3, "and1": "d", "In": "cap",
		// values that can be written as bare (unquoted) literals of several shapes
		"ver": "v1.2", "host": "node.eu.example", "rc": "rc.1", "word": "plain", "taglist": []string{"v1.2", "x.0.y"},
	}
}

// Containers holds lists and maps of every element shape.
func Containers() map[string]interface{} {
	one, two := 1, 2
	p1 := &one
	return map[string]interface{}{
		"li":   []int{1, 2, 3},
		"le":   []int{},
		"lnil": []int(nil),
		"arr":  [3]int{4, 5, 6},
		"arr0": [0]string{},
		"ls":   []string{"a", "bc", ""},
		"lb":   []bool{true},
		"lf":   []float64{0.5, 2},
		"lf32": []float32{0.1, 16777216},
		"lu8":  []uint8{1, 2},
		"li8":  []int8{-1, 127},
		"lns":  []NString{"x", "y"},
		"nsl":  NSlice{7, 8},
		"any":  []interface{}{1, "x", 2.5, true, nil, int8(3), uint(4), json.Number("6"), ip(5), (*int)(nil)},
		"anye": []interface{}{},
		"anyz": []interface{}{8080, 0, 0.0, 1.5, false, true, "", "s", uint8(0), int64(0)},
		"anyf": []interface{}{8080.0, 0.0, 443.0},
		"anyt": []interface{}{true, false},
		"anyn": []interface{}{nil, nil},
		"arri": [2]interface{}{7.0, 0.0},
		"anyb": []interface{}{"x", []int{1}},
		"anys": []interface{}{struct{}{}},
		"lp":   []*int{&one, nil, &two},
		"lpp":  []**int{&p1},
		"lst":  []TagInner{{X: 1}},
		"lste": []TagInner{},
		"ll":   [][]int{{1}, {}},
		"lm":   []map[string]int{{"k": 1}},
		"ms":   map[string]string{"a": "1", "b": "", "": "empty"},
		"mi":   map[string]int{"one": 1, "two": 2},
		"me":   map[string]int{},
		"mnil": map[string]int(nil),
		"many": map[string]interface{}{"n": nil, "i": 1, "s": "x", "l": []interface{}{1}, "m": map[string]interface{}{"z": 0}},
		// an interface list whose first elements cannot be compared with a literal (an object, a list) in front of ones that can
		"mixo": []interface{}{map[string]interface{}{"name": "x"}, "web", []interface{}{1}, "z", 5},
		"mixn": []interface{}{1, "web", map[string]interface{}{"name": "x"}},
		// keys that spell the joined form of a longer path: dots.a.b and dots["a.b"] are different selectors
		"dots": map[string]interface{}{"a.b": 1, "a": map[string]interface{}{"b": 2, "c/d": 3, "c": map[string]interface{}{"d": 4}}, "a/b": 5, "a b": 6, "ab": 7},
		"mim":  map[int]string{5: "five", -1: "neg"},
		"mi8":  map[int8]string{5: "five", 44: "wrapped"},
		"mu8":  map[uint8]string{44: "wrapped", 255: "max"},
		"mi16": map[int16]int{-32768: 1},
		"mu":   map[uint16]bool{9: true},
		"mb":   map[bool]string{true: "yes"},
		"mf":   map[float64]string{0.5: "half"},
		"mns":  map[NString]int{"x": 1, "y": 2, "z": 0},
		"mjn":  map[json.Number]int{"1": 1},
		"odd": map[string]interface{}{"007": "bond", "7": "seven", "a~1b": "tilde", "a/b": "slash", "a~b": "t2", "010": "oct", "": "empty", " sp ": "spaces", "Key": "upper", "key": "lower",
			"x.y": "dotted", "x": map[string]interface{}{"y": "nested"}, "c/d": "slashed", "c": map[string]interface{}{"d": "nested2"}, "Upper": "only-capitalised", "trim": "exact"},
		"lodd": []string{"i0", "i1", "i2", "i3", "i4", "i5", "i6", "i7", "i8", "i9", "i10"},
		"mix3": map[string]interface{}{"a": map[string]interface{}{"V": 1}, "b": map[string]interface{}{"V": []int{1}}, "c": map[string]interface{}{"V": 2}},
		"pnl":  (*[]string)(nil),
		"pnm":  (*map[string]int)(nil),
		"f32s": []float32{1, 16777216},
		"mf32": map[float32]string{1: "one"},
		"mif":  map[interface{}]int{"x": 1, 5: 2, NString("n"): 3},
		"mst":  map[struct{ A int }]int{{1}: 1},
		"mp":   map[string]*int{"p": &one, "n": nil},
		"nm":   NMap{"q": 1},
		"pl":   &[]int{1, 2},
		"pm":   &map[string]int{"k": 1},
		"str":  "abcabc",
	}
}

// Records is the nested document used for quantifiers.
func Records() map[string]interface{} {
	return map[string]interface{}{
		"top": 5,
		"x":   "shadowed-top",
		"recs": []interface{}{
			map[string]interface{}{"id": 1, "tags": []interface{}{"a", "b"}, "attr": map[string]interface{}{"k": "v", "n": 1}},
			map[string]interface{}{"id": 2, "tags": []interface{}{}, "attr": map[string]interface{}{}},
			map[string]interface{}{"id": 3, "tags": []interface{}{"b", 7}, "attr": map[string]interface{}{"k": 5}},
		},
		"byname": map[string]interface{}{
			"a": map[string]interface{}{"x": 1, "l": []int{1, 2}},
			"b": 5,
			"c": map[string]interface{}{"x": 2},
		},
		"nums":  []int{3, 1, 2},
		"empty": []int{},
		"grid":  [][]int{{1, 2}, {3}, {}},
		"mm":    map[string]map[string]int{"r1": {"c1": 1, "c2": 2}, "r2": {}},
		"long":  longList(17, 16),
	}
}

func longList(n, hot int) []int {
	l := make([]int, n)
	l[hot] = 1
	return l
}

// JSONDoc decodes a document the way callers of go-bexpr typically do.
func JSONDoc(useNumber bool) interface{} {
	const doc = `{"name":"web","port":8080,"ratio":0.25,"big":9007199254740993,"neg":-3,"on":true,"none":null,
	 "tags":["a","b",null,1,2.5,true],"meta":{"env":"prod","n":null,"nested":{"k":[1,{"z":"deep"}]}},"empty":{},"el":[],"s":"/usr/bin","mixo":[{"name":"x"},"web",[1],"z",5]}`
	dec := json.NewDecoder(strings.NewReader(doc))
	if useNumber {
		dec.UseNumber()
	}
	var v interface{}
	if err := dec.Decode(&v); err != nil {
		panic(err)
	}
	return v
}

// Wrapped puts Wrapper structs on the path for the unwrap hook.
func Wrapped() map[string]interface{} {
	return map[string]interface{}{
		"w":  Wrapper{Inner: map[string]interface{}{"a": 1, "s": "in"}},
		"pw": &Wrapper{Inner: []int{1, 2}},
		"ws": Wrapper{Inner: "str"},
		"m":  map[string]interface{}{"a": 1, "w": Wrapper{Inner: map[string]int{"k": 1}}},
		// nil pointers and nil interfaces: values a hook may replace by a default
		"nw":  (*Wrapper)(nil),
		"ni":  nil,
		"opt": Optional{S: "set"},
		"pl":  []*int{nil, ip(3)},
		// scalars of a named type, in lists and maps: values a hook may render differently
		"lns": []NString{"x", "a", "x"},
		"mns": map[string]NString{"a": "x", "b": "a"},
		"ns":  NString("x"),
		"lw":  []Wrapper{{Inner: 1}, {Inner: "x"}, {Inner: 2}},
		"ln":  []int{1, 2},
	}
}

// Optional has optional (nil) fields of pointer and interface type.
type Optional struct {
	W *Wrapper
	I interface{}
	P *string
	S string
}

// Absent has a key "zz" missing under parents of every shape, and top-level keys holding the values used as
// unknown values by the configurations (so that an expression can name "what the selector should read as").
func Absent() map[string]interface{} {
	type St struct {
		A  int
		M  map[string]int
		PM *map[string]string
	}
	pm := map[string]string{"a": "x"}
	return map[string]interface{}{
		"m":     map[string]interface{}{"a": 1, "s": "x", "inner": map[string]interface{}{"b": 2}, "l": []interface{}{map[string]interface{}{"c": 3}}, "nilv": nil},
		"ms":    map[string]string{"a": "x"},
		"nm":    NMap{"q": 1},
		"em":    map[string]int{},
		"nilm":  map[string]int(nil),
		"mi":    map[int]string{1: "one"},
		"mif":   map[interface{}]int{"x": 1},
		"pm":    &pm,
		"st":    St{A: 1, M: map[string]int{"a": 1}, PM: &pm},
		"pst":   &St{A: 2, M: map[string]int{}},
		"l":     []interface{}{1, map[string]interface{}{"a": 1}},
		"le":    []int{},
		"s":     "scalar",
		"n":     nil,
		"np":    (*map[string]int)(nil),
		"w":     Wrapper{Inner: map[string]interface{}{"a": 1}},
		"u_str": "unk", "u_empty": "", "u_int": 0, "u_nil": nil, "u_list": []interface{}{"unk", 1}, "u_map": map[string]interface{}{"k": "v"},
		"u_bool": true, "u_f64": 2.5,
	}
}

// AbsentB has other shapes at the selectors of Absent: where Absent has a map lacking a key, AbsentB has no such
// parent at all, a struct, a list, or the key present - so that an evaluator reused across both must not carry
// anything over from one document to the next.
func AbsentB() map[string]interface{} {
	type M2 struct {
		A     int
		Inner map[string]int
	}
	d := Absent()
	d["m"] = M2{A: 1, Inner: map[string]int{"zz": 7}}
	d["ms"] = []string{"a"}
	delete(d, "nm")
	d["em"] = map[string]int{"zz": 1}
	d["nilm"] = 5
	d["mi"] = map[string]string{"2": "two"}
	d["pm"] = nil
	d["st"] = map[string]interface{}{"A": 1, "M": map[string]int{"zz": 3}, "Zz": "now-present"}
	d["pst"] = map[string]interface{}{"M": 5}
	d["l"] = map[string]interface{}{"0": "not-a-list"}
	d["s"] = map[string]interface{}{"zz": "deep"}
	d["n"] = map[string]int{}
	d["w"] = map[string]interface{}{"a": 2}
	return d
}

// EqDoc has, for every scalar kind, values that short literal texts can denote and boundary values.
func EqDoc() map[string]interface{} {
	return map[string]interface{}{
		"i0": 0, "i1": 1, "im1": -1, "i7": 7, "i9": 9, "i10": 10, "i15": 15, "i17": 17, "i63": int8(63), "i100": int16(100), "i255": int32(255), "i1k": int64(1000),
		"i8min": int8(math.MinInt8), "i8max": int8(math.MaxInt8), "i16min": int16(math.MinInt16), "i32max": int32(math.MaxInt32), "i64min": int64(math.MinInt64),
		"i64max": int64(math.MaxInt64), "i53": int64(1 << 53), "i53p": int64(1<<53 + 1), "ni": NInt(7), "pi": ip(7),
		"u0": uint(0), "u1": uint8(1), "u7": uint16(7), "u9": uint32(9), "u10": uint64(10), "u15": uint(15), "u17": uint(17), "u255": uint8(255),
		"u32max": uint32(math.MaxUint32), "u64max": uint64(math.MaxUint64), "u63": uint64(1 << 63), "u53p": uint64(1<<53 + 1), "nu": NUint8(7),
		"f0": 0.0, "fm0": math.Copysign(0, -1), "f1": 1.0, "f7": 7.0, "f10": 10.0, "fp1": 0.1, "f15": 1.5, "f1e7": 1e7, "fmax": math.MaxFloat64, "fsub": 5e-324,
		"f53p": float64(1<<53 + 2), "finf": math.Inf(1), "fnan": math.NaN(), "nf": NF64(7),
		"g0": float32(0), "g1": float32(1), "g7": float32(7), "gp1": float32(0.1), "g16m": float32(16777216), "g16m2": float32(16777218), "gmax": float32(math.MaxFloat32),
		"gsub": float32(1e-45), "g1n": math.Nextafter32(1, 2), "ng": NF32(1),
		"bt": true, "bf": false, "nb": NBool(true), "pb": func() *bool { b := false; return &b }(),
		"s": "s", "se": "", "s0": "0", "s1": "1", "st": "t", "sT": "T", "s01": "01", "su": "héllo", "sx": "0x1", "sn": NString("1"), "sq": "a\"b", "sb": "a\\b",
		"snl": "a\nb", "stab": "\t", "snul": "a\x00b", "sbt": "`", "ssl": "/usr/bin", "ssp": " 1 ",
		"j0": json.Number("0"), "j1": json.Number("1"), "j7": json.Number("7"), "j15": json.Number("1.5"), "j53p": json.Number("9007199254740993"),
		"j64max": json.Number("9223372036854775807"), "j64over": json.Number("9223372036854775808"), "j1e1": json.Number("1e1"), "j017": json.Number("017"), "jneg": json.Number("-9007199254740993"),
		"nil": nil, "l": []int{1}, "m": map[string]int{"1": 1}, "stc": struct{ A int }{1}, "ppi": pip(7), "any1": interface{}(int8(1)),
	}
}

type Item struct {
	X    int
	Y    string
	Tags []string
	M    map[string]interface{}
	P    *int
	hid  int
}

type (
	NItems   []Item
	NItemMap map[string]Item
)

// Conts are the containers handed to Filter.Execute (and a few things that are not containers).
func Conts() []Doc {
	i1, i2, i3 := Item{X: 1, Y: "a", Tags: []string{"t"}, M: map[string]interface{}{"k": 1}, P: ip(1), hid: 1}, Item{X: 2, Y: "b", hid: 2}, Item{X: 1, Y: "c", M: map[string]interface{}{"k": "s"}, hid: 3}
	bad := map[string]interface{}{"X": "notanumber", "Y": 5}
	return []Doc{
		{"items", []Item{i1, i2, i3}},
		{"items-dup", []Item{i1, i1, i2, i1}},
		{"items-empty", []Item{}},
		{"items-nil", []Item(nil)},
		{"nitems", NItems{i2, i1}},
		{"arr", [3]Item{i1, i2, i3}},
		{"arr0", [0]Item{}},
		// arrays of other element types (the slice returned for an array has the array's own element type)
		{"arr-if", [2]interface{}{i1, map[string]interface{}{"X": 1, "Y": "m"}}},
		{"arr-maps", [2]map[string]interface{}{{"X": 1, "Y": "a"}, {"X": 2}}},
		{"arr-ptr", [2]*Item{&i1, &i3}},
		{"pitems", []*Item{&i1, nil, &i3}},
		{"ifaces", []interface{}{i1, map[string]interface{}{"X": 1, "Y": "m"}, map[string]interface{}{"X": 2}, &i2}},
		{"ifaces-err", []interface{}{i1, 5, i3}},
		{"ifaces-nil", []interface{}{i1, nil}},
		{"maps", []map[string]interface{}{{"X": 1, "Y": "a"}, {"X": 2}, {"Y": "a"}, {"X": 1}}},
		{"maps-err-mid", []map[string]interface{}{{"X": 1, "Y": "a"}, bad, {"X": 1, "Y": "z"}}},
		{"maps-err-first", []map[string]interface{}{bad, {"X": 1, "Y": "a"}}},
		{"maps-err-last", []map[string]interface{}{{"X": 1, "Y": "a"}, {"X": 2, "Y": "a"}, bad}},
		{"smap", map[string]Item{"one": i1, "two": i2, "three": i3}},
		{"nsmap", NItemMap{"one": i1, "two": i2}},
		{"imap", map[int]Item{1: i1, 2: i2, -3: i3}},
		{"nkmap", map[NString]Item{"x": i1, "y": i3}},
		{"ifmap", map[interface{}]interface{}{"a": i1, 2: i2, true: map[string]interface{}{"X": 1}}},
		{"ifmap2", map[interface{}]interface{}{1: i1, "1": i3, [2]string{"a b", "c"}: i1, [2]string{"a", "b c"}: i3}},
		{"items-all", []Item{i1, i3}},
		// a long list with one element in the middle that makes every comparison of X fail
		{"maps-long", func() []map[string]interface{} {
			l := make([]map[string]interface{}, 2100)
			for i := range l {
				l[i] = map[string]interface{}{"X": i % 3, "Y": "a"}
			}
			l[1500] = map[string]interface{}{"X": []int{1}, "Y": 5}
			return l
		}()},
		// lists of different lengths inside the elements: an index that some elements have and others do not
		{"items-tags", []Item{i1, {X: 3, Y: "d", Tags: []string{"t", "b"}}, {X: 1, Y: "e", Tags: []string{"b", "t", "x"}}}},
		{"smap-tags", map[string]Item{"long": {X: 3, Y: "d", Tags: []string{"t", "b"}}, "longer": {X: 1, Y: "e", Tags: []string{"b", "t", "x"}}}},
		{"map-err", map[string]interface{}{"a": i1, "b": 5}},
		{"emap", map[string]Item{}},
		{"nilmap", map[string]Item(nil)},
		{"ints", []int{1, 2, 3}},
		{"strs", []string{"a", "b"}},
		{"nil", nil},
		{"int", 5},
		{"str", "abc"},
		{"struct", i1},
		{"ptr-slice", &[]Item{i1}},
		{"chan", make(chan int)},
	}
}

// Maps holds maps of 2..8 entries whose element outcomes mix true / false / error under typical bodies.
func Maps() map[string]interface{} {
	ok := func(v int) map[string]interface{} { return map[string]interface{}{"V": v} }
	er := map[string]interface{}{"V": []int{1}}
	return map[string]interface{}{
		"m2":   map[string]interface{}{"a": ok(1), "b": er},
		"m2b":  map[string]interface{}{"a": er, "b": ok(2)},
		"m3":   map[string]interface{}{"a": ok(1), "b": er, "c": ok(2)},
		"m3b":  map[string]interface{}{"a": ok(2), "b": ok(1), "c": er},
		"m4":   map[string]interface{}{"a": ok(1), "b": ok(2), "c": er, "d": ok(2)},
		"m5":   map[string]interface{}{"e1": ok(1), "e2": er, "e3": ok(2), "e4": 5, "e5": ok(1)},
		"m8":   map[string]interface{}{"k1": ok(1), "k2": ok(1), "k3": ok(2), "k4": er, "k5": ok(1), "k6": 7, "k7": ok(2), "k8": ok(1)},
		"ok3":  map[string]interface{}{"a": ok(1), "b": ok(2), "c": ok(1)},
		"mm":   map[string]map[string]interface{}{"r1": {"c1": ok(1), "c2": er}, "r2": {"c1": ok(2), "c2": ok(2), "c3": er}},
		"ms":   map[string]string{"a": "x", "b": "y", "c": "z"},
		"mi":   map[string]int{"one": 1, "two": 2, "three": 3},
		"mix":  map[string]interface{}{"a": 1, "b": "s", "c": []int{1}, "d": nil},
		"keys": map[string]interface{}{"b": 1, "a": 2, "c": 3},
		"l":    []interface{}{map[string]interface{}{"a": ok(1), "b": er}, map[string]interface{}{"a": er, "b": ok(2)}},
		"top":  5,
		// maps whose keys are not strings: never iterable, but membership tests range over their keys
		"im3": map[int]interface{}{1: ok(1), 2: er, 3: ok(2)},
		"ifk": map[interface{}]int{"x": 1, struct{ A int }{1}: 2, 5: 3, 2.5: 4, true: 5},
		"ifl": []interface{}{"x", struct{ A int }{1}, 5, nil, 2.5},
		"nk3": map[NString]interface{}{"a": ok(1), "b": er, "c": ok(2)},
		"nat": map[string]interface{}{"007": er, "7": ok(2), "1": ok(1), "01": er, "10": ok(2), "9": ok(1)},
		"m3e": map[string]interface{}{"a": ok(1), "b": er},
		// maps and lists held by pointer: not iterable (the quantifier does not follow pointers), but whatever happens must not depend on map order
		"pm3": &map[string]interface{}{"a": ok(1), "b": er, "c": ok(2)},
		"pm4": func() interface{} { m := map[string]interface{}{"a": er, "b": ok(2), "c": ok(1), "d": er}; pm := &m; return &pm }(),
		"pl":  &[]interface{}{ok(1), er, ok(2)},
		"hp":  MapHolder{M: &map[string]interface{}{"a": ok(2), "b": er, "c": ok(1)}, V: map[string]interface{}{"a": er, "b": ok(2)}},
	}
}

// MapHolder holds one map by pointer and one by value.
type MapHolder struct {
	M *map[string]interface{}
	N *map[string]interface{}
	V map[string]interface{}
}

// MapsB has maps under the same names as Maps, with other keys and other outcomes.
func MapsB() map[string]interface{} {
	ok := func(v int) map[string]interface{} { return map[string]interface{}{"V": v} }
	d := Maps()
	d["m2"] = map[string]interface{}{"q": ok(2)}
	d["m3"] = map[string]interface{}{"x": ok(2), "y": ok(1)}
	d["m4"] = map[string]interface{}{"a": ok(2), "b": ok(2), "c": ok(2), "d": ok(2), "e": ok(1)}
	d["m5"] = map[string]interface{}{}
	d["ok3"] = map[string]interface{}{"a": ok(2)}
	d["ms"] = map[string]string{"z": "x"}
	d["keys"] = []int{1, 2}
	d["top"] = 6.5 // another numeric kind under the same key (the other document has an int)
	return d
}

// Deep nests lists under selectors of 3 to 8 segments (quantified collections of every path length).
func Deep() map[string]interface{} {
	el := func(x, y int) map[string]interface{} { return map[string]interface{}{"x": x, "y": y} }
	l := func() []interface{} { return []interface{}{el(1, 1), el(1, 3), el(2, 2), el(3, 2), el(1, 9)} }
	lvl := map[string]interface{}{"g": l(), "gm": map[string]interface{}{"1": el(3, 1), "2": el(1, 1)}}
	f := map[string]interface{}{"f": map[string]interface{}{"p": el(1, 1), "q": el(2, 9), "g": lvl["g"]}, "fl": l()}
	e := map[string]interface{}{"e": l(), "ee": f}
	d := map[string]interface{}{"d": map[string]interface{}{"e": l(), "f": f["f"], "ee": e}}
	return map[string]interface{}{"a": map[string]interface{}{"b": map[string]interface{}{"c": l(), "cc": d, "c2": map[string]interface{}{"d": d["d"]}}},
		"s": "scalar", "m": map[string]interface{}{"s": "x"}, "m3": map[string]interface{}{"a": 1, "b": 2, "c": 3},
		"l": []interface{}{[]interface{}{1, 2}, []interface{}{3}}, "st": struct{ A int }{1}, "u_str": "unk", "X": 1, "Y": "b", "Tags": []string{"t1", "t2"},
		"big": func() []int { b := make([]int, 70); b[69] = 39; return b }(), "num": 1,
		// lists of growing length (whatever is sized by the longest list seen so far grows several times)
		"grow": func() []interface{} {
			var g []interface{}
			for _, n := range []int{20, 40, 90, 180, 400, 900} {
				l := make([]int, n)
				l[n-1] = 7
				g = append(g, l)
			}
			return g
		}(),
		// a long list whose neighbours are of different numeric kinds (every element is compared in its own kind)
		"mixed": func() []interface{} {
			var l []interface{}
			for i := 0; i < 60; i++ {
				l = append(l, 2+i, float64(2+i), uint8(2+i), int8(3), float32(2.5))
			}
			return append(l, 1.0)
		}()}
}

// Deep2 has the shape of Deep with other contents.
func Deep2() map[string]interface{} {
	d := Deep()
	d["a"].(map[string]interface{})["b"].(map[string]interface{})["c"] = []interface{}{map[string]interface{}{"x": 1.0, "y": uint8(2)}, map[string]interface{}{"x": int8(7), "y": 7.5}}
	d["s"] = "other"
	d["num"] = 1.0
	d["X"] = uint8(1)
	d["big"] = func() []interface{} { b := make([]interface{}, 90); b[89] = 39.0; return b }()
	d["m3"] = map[string]interface{}{"z": 1}
	d["l"] = []interface{}{[]interface{}{5}}
	return d
}

type Doc struct {
	Name string
	V    interface{}
}

// World returns the documents of a named world, freshly built.
func World(name string) []Doc {
	switch name {
	case "scalars":
		f := NewFlat()
		return []Doc{{"scalars", Scalars()}, {"flat", f}, {"pflat", &f}}
	case "containers":
		return []Doc{{"containers", Containers()}}
	case "records":
		return []Doc{{"records", Records()}}
	case "json":
		return []Doc{{"json", JSONDoc(false)}, {"jsonnum", JSONDoc(true)}}
	case "tagged":
		t := NewTagged("s3cr3t")
		return []Doc{{"tagged", t}, {"ptagged", &t}, {"mtagged", map[string]interface{}{"t": t, "l": []Tagged{t}}}}
	case "wrapped":
		return []Doc{{"wrapped", Wrapped()}}
	case "kinds":
		return Kinds()
	case "secrets-bexpr":
		return secretPair(NewTagged3("s3cr3t", "jay", "priv"), NewTagged3("0ther", "jay", "pri2"), "sb")
	case "secrets-json":
		return secretPair(NewTagged3("bee", "s3cr3t", "priv"), NewTagged3("bee", "0ther", "pri2"), "sj")
	case "secrets-pointer":
		return secretPair(NewTagged3("bee", "jay", "s3cr3t"), NewTagged3("bee", "jay", "0ther"), "sp")
	case "secrets-zero":
		// all visible fields are zero; one document of the pair has zero hidden fields as well
		z := Tagged{}
		h := Tagged{Hidden: "s3cr3t", private: "priv", hiddenEmb: hiddenEmb{Promoted: "p"}, Inner: TagInner{Secret: "s3cr3t", low: 5}}
		return []Doc{{"sz-a", z}, {"sz-b", h}, {"sz-pa", &z}, {"sz-pb", &h}, {"sz-ma", map[string]interface{}{"t": z, "l": []Tagged{z}, "arr": [2]Tagged{z, z}, "arri": [1]TagInner{z.Inner}, "parr": &[1]Tagged{z}}},
			{"sz-mb", map[string]interface{}{"t": h, "l": []Tagged{h}, "arr": [2]Tagged{h, h}, "arri": [1]TagInner{h.Inner}, "parr": &[1]Tagged{h}}}}
	case "absent":
		return []Doc{{"absent", Absent()}, {"absent-b", AbsentB()}, {"absent-again", Absent()}}
	case "conts":
		return Conts()
	case "maps":
		return []Doc{{"maps", Maps()}, {"maps-b", MapsB()}}
	case "eq":
		return []Doc{{"eq", EqDoc()}}
	}
	return nil
}
