package zoo

import (
	"encoding/json"
	"math"
	"reflect"
	"unsafe"
)

// Kinds returns one document per sample value; every document has the same shape and reaches the sample as a
// map value, behind one and two pointers, as a nil pointer of its type, inside []interface{}, inside a typed
// slice and array, as a typed map value, and as a typed map key where the type allows it.
func Kinds() []Doc {
	type S struct {
		A int
		b string
	}
	one := 1
	samples := []struct {
		name string
		v    interface{}
	}{
		{"bool", true}, {"int", -3}, {"int8", int8(7)}, {"int16", int16(-300)}, {"int32", int32(1 << 20)}, {"int64", int64(math.MinInt64)},
		{"uint", uint(3)}, {"uint8", uint8(200)}, {"uint16", uint16(60000)}, {"uint32", uint32(1 << 31)}, {"uint64", uint64(math.MaxUint64)},
		{"uintptr", uintptr(9)}, {"float32", float32(0.1)}, {"float64", 2.5}, {"complex64", complex64(1 + 2i)}, {"complex128", 3 + 4i},
		{"string", "str"}, {"estring", ""}, {"nstring", NString("ns")}, {"nint", NInt(5)}, {"nbool", NBool(true)}, {"jnum", json.Number("12")},
		{"chan", make(chan int, 1)}, {"nilchan", (chan int)(nil)}, {"func", func() {}}, {"unsafeptr", unsafe.Pointer(&one)},
		{"array", [2]int{1, 2}}, {"bytearray", [2]byte{97, 98}}, {"ptrptrarr", func() interface{} { a := [2]int{1, 2}; p := &a; return &p }()}, {"array0", [0]int{}}, {"slice", []int{1}}, {"nilslice", []string(nil)}, {"bytes", []byte("ab")}, {"nbytes", NBytes("cd")},
		{"map", map[string]int{"a": 1}}, {"nilmap", map[string]int(nil)}, {"imap", map[int]int{1: 1}}, {"struct", S{A: 1, b: "x"}}, {"estruct", struct{}{}},
		{"ptrarr", &[2]int{3, 4}}, {"islice", []interface{}{nil, 1}}, {"nslice", NSlice{1}},
	}
	var docs []Doc
	for _, s := range samples {
		v := reflect.ValueOf(s.v)
		t := v.Type()
		p := reflect.New(t)
		p.Elem().Set(v)
		pp := reflect.New(p.Type())
		pp.Elem().Set(p)
		sl := reflect.MakeSlice(reflect.SliceOf(t), 0, 2)
		sl = reflect.Append(sl, v, reflect.Zero(t))
		arr := reflect.New(reflect.ArrayOf(1, t)).Elem()
		arr.Index(0).Set(v)
		tm := reflect.MakeMap(reflect.MapOf(reflect.TypeOf(""), t))
		tm.SetMapIndex(reflect.ValueOf("k"), v)
		psl := reflect.MakeSlice(reflect.SliceOf(p.Type()), 0, 2)
		psl = reflect.Append(psl, p, reflect.Zero(p.Type()))
		d := map[string]interface{}{
			"v": s.v, "p": p.Interface(), "pp": pp.Interface(), "np": reflect.Zero(p.Type()).Interface(),
			"l": []interface{}{s.v, p.Interface(), nil, reflect.Zero(p.Type()).Interface()}, "lt": sl.Interface(), "at": arr.Interface(),
			"m": map[string]interface{}{"k": s.v, "n": nil}, "tm": tm.Interface(), "pl": psl.Interface(),
		}
		if t.Comparable() && t.Kind() != reflect.Chan && t.Kind() != reflect.Func {
			km := reflect.MakeMap(reflect.MapOf(t, reflect.TypeOf(0)))
			func() {
				defer func() { recover() }()
				km.SetMapIndex(v, reflect.ValueOf(1))
			}()
			d["km"] = km.Interface()
		}
		docs = append(docs, Doc{"kind-" + s.name, d})
	}
	return docs
}
