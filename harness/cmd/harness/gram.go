package main

import (
	"bytes"
	"encoding/json"
	"flag"
	"fmt"
	"go/ast"
	"go/format"
	"go/parser"
	"go/printer"
	"go/token"
	"os"
	"strconv"
	"strings"
)

func init() { cmds["gram"] = cmdGram }

// node is one expression node of a grammar table, in the format of tools/peg2json.py.
type node struct {
	T       string   `json:"t"`
	Es      []*node  `json:"es,omitempty"`
	E       *node    `json:"e,omitempty"`
	Label   string   `json:"label"`
	Name    string   `json:"name"`
	Val     string   `json:"val"`
	Want    string   `json:"want"`
	Ic      bool     `json:"ic"`
	Inv     bool     `json:"inv"`
	Chars   []int    `json:"chars"`
	Ranges  []int    `json:"ranges"`
	Classes []string `json:"classes"`
	Pos     []int    `json:"pos"`
}

type ruleJSON struct {
	Name    string `json:"name"`
	Display string `json:"display"`
	Pos     []int  `json:"pos"`
	Expr    *node  `json:"expr"`
}

type funcJSON struct {
	Params []string `json:"params"`
	Body   string   `json:"body"`
	Ret    string   `json:"ret"`
}

type callonJSON struct {
	Calls string   `json:"calls"`
	Args  []string `json:"args"`
}

func lit(e ast.Expr) string {
	if b, ok := e.(*ast.BasicLit); ok {
		if b.Kind == token.STRING {
			s, err := strconv.Unquote(b.Value)
			if err == nil {
				return s
			}
		}
		return b.Value
	}
	if id, ok := e.(*ast.Ident); ok {
		return id.Name
	}
	return fmt.Sprintf("?%T", e)
}

func runeOf(e ast.Expr) int {
	if b, ok := e.(*ast.BasicLit); ok {
		switch b.Kind {
		case token.CHAR:
			r, _, _, err := strconv.UnquoteChar(b.Value[1:len(b.Value)-1], '\'')
			if err == nil {
				return int(r)
			}
		case token.INT:
			i, _ := strconv.ParseInt(b.Value, 0, 64)
			return int(i)
		}
	}
	return -1
}

func fields(cl *ast.CompositeLit) map[string]ast.Expr {
	m := map[string]ast.Expr{}
	for _, el := range cl.Elts {
		if kv, ok := el.(*ast.KeyValueExpr); ok {
			m[lit(kv.Key)] = kv.Value
		}
	}
	return m
}

func posOf(e ast.Expr) []int {
	cl, ok := e.(*ast.CompositeLit)
	if !ok {
		return nil
	}
	f := fields(cl)
	geti := func(k string) int {
		if v, ok := f[k]; ok {
			i, _ := strconv.Atoi(lit(v))
			return i
		}
		return 0
	}
	return []int{geti("line"), geti("col"), geti("offset")}
}

func typeName(e ast.Expr) string {
	switch t := e.(type) {
	case *ast.Ident:
		return t.Name
	case *ast.StarExpr:
		return typeName(t.X)
	}
	return ""
}

func unref(e ast.Expr) (*ast.CompositeLit, bool) {
	if u, ok := e.(*ast.UnaryExpr); ok && u.Op == token.AND {
		e = u.X
	}
	cl, ok := e.(*ast.CompositeLit)
	return cl, ok
}

// runName turns (*parser).callonFoo2 into callonFoo2
func runName(e ast.Expr) string {
	if s, ok := e.(*ast.SelectorExpr); ok {
		return s.Sel.Name
	}
	return lit(e)
}

func list(e ast.Expr) []ast.Expr {
	if cl, ok := e.(*ast.CompositeLit); ok {
		return cl.Elts
	}
	return nil
}

func convert(e ast.Expr) (*node, error) {
	cl, ok := unref(e)
	if !ok {
		return nil, fmt.Errorf("table node is not a composite literal: %T", e)
	}
	f := fields(cl)
	n := &node{Pos: posOf(f["pos"])}
	tn := typeName(cl.Type)
	sub := func(k string) error {
		c, err := convert(f[k])
		n.E = c
		return err
	}
	subs := func(k string) error {
		for _, x := range list(f[k]) {
			c, err := convert(x)
			if err != nil {
				return err
			}
			n.Es = append(n.Es, c)
		}
		return nil
	}
	switch tn {
	case "choiceExpr":
		n.T = "choice"
		return n, subs("alternatives")
	case "seqExpr":
		n.T = "seq"
		return n, subs("exprs")
	case "actionExpr":
		n.T = "act"
		n.Name = runName(f["run"])
		return n, sub("expr")
	case "labeledExpr":
		n.T = "lab"
		n.Label = lit(f["label"])
		return n, sub("expr")
	case "ruleRefExpr":
		n.T = "ref"
		n.Name = lit(f["name"])
		return n, nil
	case "litMatcher":
		n.T = "lit"
		n.Val, n.Want = lit(f["val"]), lit(f["want"])
		n.Ic = lit(f["ignoreCase"]) == "true"
		return n, nil
	case "charClassMatcher":
		n.T = "cls"
		n.Val = lit(f["val"])
		n.Ic, n.Inv = lit(f["ignoreCase"]) == "true", lit(f["inverted"]) == "true"
		n.Chars, n.Ranges, n.Classes = []int{}, []int{}, []string{}
		for _, x := range list(f["chars"]) {
			n.Chars = append(n.Chars, runeOf(x))
		}
		for _, x := range list(f["ranges"]) {
			n.Ranges = append(n.Ranges, runeOf(x))
		}
		for _, x := range list(f["classes"]) {
			if c, ok := x.(*ast.CallExpr); ok && len(c.Args) == 1 {
				n.Classes = append(n.Classes, lit(c.Args[0]))
			} else {
				n.Classes = append(n.Classes, "?")
			}
		}
		if _, ok := f["basicLatinChars"]; ok {
			n.Classes = append(n.Classes, "?basicLatinChars")
		}
		return n, nil
	case "anyMatcher":
		n.T = "any"
		n.Pos = posOf(cl)
		return n, nil
	case "andExpr", "notExpr", "zeroOrOneExpr", "zeroOrMoreExpr", "oneOrMoreExpr":
		n.T = map[string]string{"andExpr": "and", "notExpr": "not", "zeroOrOneExpr": "opt", "zeroOrMoreExpr": "star", "oneOrMoreExpr": "plus"}[tn]
		return n, sub("expr")
	case "andCodeExpr", "notCodeExpr":
		n.T = map[string]string{"andCodeExpr": "andcode", "notCodeExpr": "notcode"}[tn]
		n.Name = runName(f["run"])
		return n, nil
	}
	n.T = "?" + tn
	return n, nil
}

// normBody formats a function body so that the grammar's code block and the generated function can be compared.
func normBody(code string) (string, error) {
	src := "package p\nfunc f() {\n" + code + "\n}\n"
	out, err := format.Source([]byte(src))
	if err != nil {
		return "", err
	}
	fs := token.NewFileSet()
	file, err := parser.ParseFile(fs, "", out, parser.ParseComments)
	if err != nil {
		return "", err
	}
	fd := file.Decls[0].(*ast.FuncDecl)
	var buf bytes.Buffer
	// print statement by statement so that indentation does not matter; comments are dropped
	for _, st := range fd.Body.List {
		printer.Fprint(&buf, token.NewFileSet(), st)
		buf.WriteString("\n")
	}
	return strings.TrimSpace(buf.String()), nil
}

func cmdGram(args []string) error {
	fs := flag.NewFlagSet("gram", flag.ExitOnError)
	gof := fs.String("go", "/repo/grammar/grammar.go", "generated parser")
	pegf := fs.String("peg", "", "JSON written by tools/peg2json.py (code blocks are normalised and echoed)")
	fs.Parse(args)
	fset := token.NewFileSet()
	file, err := parser.ParseFile(fset, *gof, nil, 0)
	if err != nil {
		return err
	}
	out := map[string]interface{}{}
	var rules []ruleJSON
	funcs := map[string]funcJSON{}
	callons := map[string]callonJSON{}
	for _, d := range file.Decls {
		switch dd := d.(type) {
		case *ast.GenDecl:
			for _, sp := range dd.Specs {
				vs, ok := sp.(*ast.ValueSpec)
				if !ok || len(vs.Names) != 1 || vs.Names[0].Name != "g" || len(vs.Values) != 1 {
					continue
				}
				gl, ok := unref(vs.Values[0])
				if !ok {
					return fmt.Errorf("var g is not a composite literal")
				}
				for _, r := range list(fields(gl)["rules"]) {
					rl, ok := unref(r)
					if !ok {
						return fmt.Errorf("rule is not a composite literal")
					}
					f := fields(rl)
					e, err := convert(f["expr"])
					if err != nil {
						return err
					}
					rj := ruleJSON{Name: lit(f["name"]), Pos: posOf(f["pos"]), Expr: e}
					if dn, ok := f["displayName"]; ok {
						rj.Display = lit(dn)
					}
					rules = append(rules, rj)
				}
			}
		case *ast.FuncDecl:
			name := dd.Name.Name
			if dd.Recv == nil || len(dd.Recv.List) != 1 {
				continue
			}
			recv := typeName(dd.Recv.List[0].Type)
			if recv == "current" && strings.HasPrefix(name, "on") {
				var params []string
				for _, p := range dd.Type.Params.List {
					for _, n := range p.Names {
						params = append(params, n.Name)
					}
				}
				var buf bytes.Buffer
				for _, st := range dd.Body.List {
					printer.Fprint(&buf, token.NewFileSet(), st)
					buf.WriteString("\n")
				}
				ret := ""
				if dd.Type.Results != nil && len(dd.Type.Results.List) > 0 {
					ret = typeName(dd.Type.Results.List[0].Type)
				}
				if params == nil {
					params = []string{}
				}
				funcs[name] = funcJSON{Params: params, Body: strings.TrimSpace(buf.String()), Ret: ret}
			}
			if recv == "parser" && strings.HasPrefix(name, "callon") {
				cj := callonJSON{Args: []string{}}
				ast.Inspect(dd.Body, func(n ast.Node) bool {
					if rs, ok := n.(*ast.ReturnStmt); ok && len(rs.Results) == 1 {
						if call, ok := rs.Results[0].(*ast.CallExpr); ok {
							cj.Calls = runName(call.Fun)
							for _, a := range call.Args {
								if ix, ok := a.(*ast.IndexExpr); ok {
									cj.Args = append(cj.Args, lit(ix.Index))
								} else {
									cj.Args = append(cj.Args, "?")
								}
							}
						}
					}
					return true
				})
				callons[name] = cj
			}
		}
	}
	out["go"] = map[string]interface{}{"rules": rules, "funcs": funcs, "callons": callons}
	if *pegf != "" {
		b, err := os.ReadFile(*pegf)
		if err != nil {
			return err
		}
		var peg map[string]interface{}
		if err := json.Unmarshal(b, &peg); err != nil {
			return err
		}
		var walk func(x interface{}) error
		walk = func(x interface{}) error {
			switch v := x.(type) {
			case map[string]interface{}:
				if code, ok := v["code"].(string); ok {
					nb, err := normBody(code)
					if err != nil {
						return fmt.Errorf("code block of %v does not parse as Go: %v", v["name"], err)
					}
					v["body"] = nb
				}
				for _, c := range v {
					if err := walk(c); err != nil {
						return err
					}
				}
			case []interface{}:
				for _, c := range v {
					if err := walk(c); err != nil {
						return err
					}
				}
			}
			return nil
		}
		if err := walk(peg); err != nil {
			return err
		}
		out["peg"] = peg
	}
	return json.NewEncoder(os.Stdout).Encode(out)
}
