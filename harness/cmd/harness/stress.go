package main

import (
	"encoding/json"
	"flag"
	"fmt"
	"os"
	"sync"
	"sync/atomic"
	"time"

	bexpr "github.com/hashicorp/go-bexpr"
	"verif/harness/run"
	"verif/harness/zoo"
)

func init() { cmds["stress"] = cmdStress }

// cmdStress hammers shared evaluators for a fixed time with tiny documents in which the same selector holds values of
// different kinds and shapes: synchronisation that is data-race free but not atomic as a whole (torn pairs of atomics,
// check-then-act) only shows as a wrong result under a very large number of overlapping calls.
func cmdStress(args []string) error {
	fs := flag.NewFlagSet("stress", flag.ExitOnError)
	secs := fs.Float64("secs", 3, "seconds")
	fs.Parse(args)
	type call struct {
		src string
		d   interface{}
	}
	one := 5
	calls := []call{
		{`x == 5`, map[string]interface{}{"x": 5}}, {`x == 5`, map[string]interface{}{"x": 5.0}}, {`x == 5`, map[string]interface{}{"x": uint8(5)}},
		{`x == 5`, map[string]interface{}{"x": "5"}}, {`x == 5`, map[string]interface{}{"x": float32(5)}}, {`x == 5`, map[string]interface{}{"x": &one}},
		{`x != 1.5`, map[string]interface{}{"x": 7}}, {`x != 1.5`, map[string]interface{}{"x": 1.5}}, {`x != 1.5`, map[string]interface{}{"x": true}},
		{`5 in x`, map[string]interface{}{"x": []interface{}{1.0, uint(2), 5}}}, {`5 in x`, map[string]interface{}{"x": []int{1, 5}}}, {`5 in x`, map[string]interface{}{"x": "a5"}},
		{`5 in x`, map[string]interface{}{"x": map[int]string{5: "a"}}}, {`5 in x`, map[string]interface{}{"x": map[string]int{"5": 1}}},
		{`any x as v { v == 2 }`, map[string]interface{}{"x": []interface{}{1, 2.0}}}, {`any x as v { v == 2 }`, map[string]interface{}{"x": map[string]interface{}{"a": uint(2)}}},
		{`x.y matches "^a"`, map[string]interface{}{"x": map[string]interface{}{"y": "ab"}}}, {`x.y matches "^a"`, map[string]interface{}{"x": map[string]string{}}},
		{`x.y matches "^a"`, map[string]interface{}{"x": struct{ Y string }{"ab"}}}, {`x is empty`, map[string]interface{}{"x": ""}}, {`x is empty`, map[string]interface{}{"x": []int{1}}},
		{`X == 1 and Y != a`, zoo.Item{X: 1, Y: "b"}}, {`X == 1 and Y != a`, map[string]interface{}{"X": 1.0, "Y": "a"}},
	}
	evs := map[string]*bexpr.Evaluator{}
	want := make([]string, len(calls))
	for i, c := range calls {
		fresh, o := run.Create(c.src)
		if fresh == nil {
			return fmt.Errorf("%q: %s", c.src, o.O)
		}
		want[i] = run.Eval(fresh, c.d).O
		if evs[c.src] == nil {
			evs[c.src], _ = run.Create(c.src)
		}
	}
	var total int64
	var mu sync.Mutex
	var bad []map[string]string
	deadline := time.Now().Add(time.Duration(*secs * float64(time.Second)))
	var wg sync.WaitGroup
	for g := 0; g < 3; g++ {
		for i := range calls {
			i := i
			wg.Add(1)
			go func() {
				defer wg.Done()
				e := evs[calls[i].src]
				n := int64(0)
				for time.Now().Before(deadline) {
					for k := 0; k < 64; k++ {
						n++
						if got := run.Eval(e, calls[i].d).O; got != want[i] {
							mu.Lock()
							if len(bad) < 10 {
								bad = append(bad, map[string]string{"expr": calls[i].src, "datum": fmt.Sprintf("%#v", calls[i].d), "sequential": want[i], "concurrent": got})
							}
							mu.Unlock()
							atomic.AddInt64(&total, n)
							return
						}
					}
				}
				atomic.AddInt64(&total, n)
			}()
		}
	}
	wg.Wait()
	if bad == nil {
		bad = []map[string]string{}
	}
	return json.NewEncoder(os.Stdout).Encode(map[string]interface{}{"calls": total, "mismatches": bad, "kinds_of_call": len(calls)})
}
