package main

import (
	"encoding/json"
	"flag"
	"os"
	"path/filepath"
	"strconv"
	"strings"
	"unicode"
	"unicode/utf8"
)

func init() { cmds["corpus"] = cmdCorpus }

// symsOf maps bytes onto the model alphabet (nil if some byte has no symbol: < and >, control characters).
func symsOf(b []byte) []string {
	var out []string
	for len(b) > 0 {
		r, n := utf8.DecodeRune(b)
		switch {
		case r == utf8.RuneError && n == 1:
			out = append(out, "<B>")
		case r == 0:
			out = append(out, "<0>")
		case r == '<' || r == '>':
			return nil
		case r == '\t' || r == '\n' || r == '\r' || (r >= 32 && r < 127):
			out = append(out, string(r))
		case r < 32 || r == 127:
			return nil
		case unicode.IsLetter(r):
			out = append(out, "<L>")
		case unicode.IsNumber(r):
			out = append(out, "<N>")
		default:
			out = append(out, "<S>")
		}
		b = b[n:]
	}
	return out
}

// cmdCorpus prints the inputs Go's fuzzer has accumulated for FuzzCreate (coverage-increasing inputs) as symbol
// sequences, so that they can be validated against the reference grammar.
func cmdCorpus(args []string) error {
	fs := flag.NewFlagSet("corpus", flag.ExitOnError)
	dir := fs.String("dir", "", "fuzz cache directory of FuzzCreate")
	max := fs.Int("max", 100000, "longest input kept (bytes)")
	fs.Parse(args)
	files, _ := filepath.Glob(filepath.Join(*dir, "*"))
	out := [][]string{}
	for _, f := range files {
		b, err := os.ReadFile(f)
		if err != nil {
			continue
		}
		lines := strings.Split(string(b), "\n")
		if len(lines) < 2 || !strings.HasPrefix(lines[1], "[]byte(") {
			continue
		}
		q := strings.TrimSuffix(strings.TrimPrefix(lines[1], "[]byte("), ")")
		s, err := strconv.Unquote(q)
		if err != nil || len(s) > *max {
			continue
		}
		if sy := symsOf([]byte(s)); sy != nil && len(sy) > 0 {
			out = append(out, sy)
		}
	}
	return json.NewEncoder(os.Stdout).Encode(out)
}
