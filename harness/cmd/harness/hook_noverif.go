//go:build !verif

package main

// without the verif build tag the parser has no step hook: step counts read as 0 and are not compared
func installStepHook() {}
