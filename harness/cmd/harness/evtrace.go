package main

import (
	"bufio"
	"encoding/json"
	"flag"
	"fmt"
	"os"
	"reflect"

	bexpr "github.com/hashicorp/go-bexpr"
	"verif/harness/av"
	"verif/harness/expr"
	"verif/harness/run"
)

func init() { cmds["evtrace"] = cmdEvTrace }

// digest names a value a hook is handed the way spec/Den.tla!Digest does: kind, length of containers, text of strings.
func digest(v reflect.Value) string {
	a := av.Abstract(v)
	switch a.K {
	case "list":
		return fmt.Sprintf("list%d", len(a.List))
	case "map":
		return fmt.Sprintf("map%d", len(a.Ents))
	case "str":
		return "str:" + a.Str
	}
	return a.K
}

// cmdEvTrace validates evaluation traces: spec/Eval.tla printed, for every (expression, configuration, document), the result of
// its small-step machine and the resolve events in order (what a value transformation hook is handed, call by call); the real
// evaluator runs the same expression with a recording hook wrapped around the configuration's own hook, and both are compared.
func cmdEvTrace(args []string) error {
	fs := flag.NewFlagSet("evtrace", flag.ExitOnError)
	wf := fs.String("world", "world.json", "world file (worlds, docs, cfgsel, exprs)")
	cf := fs.String("cases", "cases.ndjson", "trace records printed by TLC")
	of := fs.String("out", "evtrace.json", "result file")
	fs.Parse(args)
	_, docs, cfgs, err := loadWorld(*wf)
	if err != nil {
		return err
	}
	var w struct {
		Exprs []expr.Expr `json:"exprs"`
	}
	b, err := os.ReadFile(*wf)
	if err != nil {
		return err
	}
	if err := json.Unmarshal(b, &w); err != nil {
		return err
	}
	f, err := os.Open(*cf)
	if err != nil {
		return err
	}
	defer f.Close()
	type bad struct {
		Expr string   `json:"expr"`
		Doc  int      `json:"doc"`
		Cfg  string   `json:"cfg"`
		What string   `json:"what"`
		Spec []string `json:"spec"`
		Impl []string `json:"impl"`
	}
	var outcome, trace []bad
	n, skipped, events := 0, 0, 0
	var sample map[string]interface{}
	sc := bufio.NewScanner(f)
	sc.Buffer(make([]byte, 1<<20), 1<<28)
	for sc.Scan() {
		var c struct {
			E    int      `json:"e"`
			C    int      `json:"c"`
			D    int      `json:"d"`
			Ret  string   `json:"ret"`
			Hlog []string `json:"hlog"`
		}
		if err := json.Unmarshal(sc.Bytes(), &c); err != nil {
			return fmt.Errorf("bad trace record: %v", err)
		}
		if c.Ret == "?" {
			skipped++
			continue
		}
		e := w.Exprs[c.E-1]
		text, err := expr.Render(&e, expr.Style{})
		if err != nil {
			skipped++
			continue
		}
		cfg := cfgs[c.C-1]
		inner := run.HookFn(cfg.Hook)
		var got []string
		rec := func(v reflect.Value) reflect.Value {
			got = append(got, digest(v))
			if inner == nil {
				return v
			}
			return inner(v)
		}
		ev, o := run.Create(text, append(cfg.Options(), bexpr.WithHookFn(rec))...)
		if ev == nil {
			return fmt.Errorf("cannot create %q: %s", text, o.O)
		}
		res := run.Eval(ev, docs[0][c.D-1])
		n++
		events += len(got)
		if res.O != c.Ret {
			if len(outcome) < 40 {
				outcome = append(outcome, bad{Expr: text, Doc: c.D, Cfg: cfg.Name, What: "outcome", Spec: []string{c.Ret}, Impl: []string{res.O}})
			}
			continue
		}
		if !reflect.DeepEqual(append([]string{}, got...), append([]string{}, c.Hlog...)) && len(trace) < 40 {
			trace = append(trace, bad{Expr: text, Doc: c.D, Cfg: cfg.Name, What: "resolve events", Spec: c.Hlog, Impl: got})
		}
		if sample == nil && len(got) > 4 {
			sample = map[string]interface{}{"expr": text, "cfg": cfg.Name, "outcome": res.O, "resolve_events": got}
		}
	}
	if err := sc.Err(); err != nil {
		return err
	}
	out, _ := json.MarshalIndent(map[string]interface{}{"traces": n, "events": events, "skipped": skipped, "outcome": outcome, "trace": trace, "sample": sample}, "", " ")
	return os.WriteFile(*of, out, 0o644)
}
