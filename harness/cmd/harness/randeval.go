package main

import (
	"encoding/json"
	"flag"
	"fmt"
	"math"
	"math/rand"
	"os"
	"reflect"
	"strconv"

	"verif/harness/av"
	"verif/harness/expr"
	"verif/harness/run"
	"verif/harness/zoo"
)

func init() { cmds["randeval"] = cmdRandEval }

type gen struct{ r *rand.Rand }

var scalarSamples = []interface{}{
	true, false, zoo.NBool(true), 0, 1, -1, 7, int8(-128), int8(127), int16(300), int32(-70000), int64(math.MaxInt64), int64(math.MinInt64), int64(1<<53 + 1),
	uint(0), uint(7), uint8(255), uint16(65535), uint32(1 << 31), uint64(math.MaxUint64), uint64(1 << 63), zoo.NInt(5), zoo.NUint8(9),
	float32(0), float32(1), float32(0.1), float32(16777216), 0.0, 1.0, 0.1, 2.5, 1e7, math.Copysign(0, -1), math.NaN(), math.Inf(-1), 5e-324, zoo.NF64(1.5), zoo.NF32(1),
	"", "a", "hello", "héllo", "0", "1", "true", "/usr/bin", "a b", "x\ny", zoo.NString("named"), json.Number("1"), json.Number("1.5"), json.Number("9007199254740993"), json.Number("x"),
}

func (g *gen) scalar() interface{} { return scalarSamples[g.r.Intn(len(scalarSamples))] }

var keyPool = []string{"a", "b", "c", "k", "x", "id", "name", "0", "1", "007", "a/b", "a~b", "", "Key", "key", "zz9"}

func (g *gen) value(depth int) interface{} {
	n := g.r.Intn(100)
	if depth <= 0 || n < 30 {
		return g.scalar()
	}
	switch {
	case n < 36:
		return nil
	case n < 44: // pointer (maybe nil, maybe to pointer)
		v := g.value(depth - 1)
		if v == nil {
			return (*int)(nil)
		}
		p := reflect.New(reflect.TypeOf(v))
		if g.r.Intn(4) == 0 {
			return reflect.Zero(p.Type()).Interface()
		}
		p.Elem().Set(reflect.ValueOf(v))
		if g.r.Intn(4) == 0 {
			pp := reflect.New(p.Type())
			pp.Elem().Set(p)
			return pp.Interface()
		}
		return p.Interface()
	case n < 58: // []interface{}
		l := make([]interface{}, g.r.Intn(5))
		for i := range l {
			l[i] = g.value(depth - 1)
		}
		return l
	case n < 70: // typed slice / array of a scalar type, or of pointers to it
		s := g.scalar()
		t := reflect.TypeOf(s)
		ln := g.r.Intn(4)
		ptr := g.r.Intn(4) == 0
		et := t
		if ptr {
			et = reflect.PtrTo(t)
		}
		var c reflect.Value
		if g.r.Intn(3) == 0 {
			c = reflect.New(reflect.ArrayOf(ln, et)).Elem()
		} else {
			c = reflect.MakeSlice(reflect.SliceOf(et), ln, ln)
		}
		for i := 0; i < ln; i++ {
			v := reflect.ValueOf(g.scalarOf(t))
			if ptr {
				if g.r.Intn(3) == 0 {
					continue
				}
				p := reflect.New(t)
				p.Elem().Set(v)
				v = p
			}
			c.Index(i).Set(v)
		}
		return c.Interface()
	case n < 84: // map[string]interface{}
		m := map[string]interface{}{}
		for i, k := 0, g.r.Intn(5); i < k; i++ {
			m[keyPool[g.r.Intn(len(keyPool))]] = g.value(depth - 1)
		}
		return m
	case n < 92: // typed map with another key type
		switch g.r.Intn(5) {
		case 0:
			return map[int]interface{}{1: g.value(depth - 1), -2: g.scalar()}
		case 1:
			return map[zoo.NString]int{"a": 1, "b": 0}
		case 2:
			return map[interface{}]interface{}{"a": g.scalar(), 2: g.scalar(), true: 1}
		case 3:
			return map[bool]string{true: "yes"}
		default:
			return map[string]string{"a": "x", "b": ""}
		}
	default: // struct with tags, built by reflection
		var fs []reflect.StructField
		names := []string{"A", "B", "Name", "Hid", "Ren"}
		tags := []reflect.StructTag{"", "", `bexpr:"name"`, `bexpr:"-"`, `bexpr:"ren,omitempty" json:"-"`}
		vals := []interface{}{}
		for i := range names {
			if g.r.Intn(3) == 0 {
				continue
			}
			v := g.value(depth - 1)
			t := reflect.TypeOf(v)
			if v == nil {
				t = reflect.TypeOf((*interface{})(nil)).Elem()
			}
			fs = append(fs, reflect.StructField{Name: names[i], Type: t, Tag: tags[i]})
			vals = append(vals, v)
		}
		s := reflect.New(reflect.StructOf(fs)).Elem()
		for i, v := range vals {
			if v != nil {
				s.Field(i).Set(reflect.ValueOf(v))
			}
		}
		return s.Interface()
	}
}

// scalarOf returns a random value of the given scalar type
func (g *gen) scalarOf(t reflect.Type) interface{} {
	for i := 0; i < 200; i++ {
		s := g.scalar()
		if reflect.TypeOf(s) == t {
			return s
		}
	}
	return reflect.Zero(t).Interface()
}

type pathInfo struct {
	path []string
	node *av.AV
}

func walk(a *av.AV, prefix []string, depth int, out *[]pathInfo) {
	*out = append(*out, pathInfo{append([]string{}, prefix...), a})
	if depth == 0 {
		return
	}
	n := a
	for n.K == "ptr" {
		n = n.To
	}
	switch n.K {
	case "map":
		for i := range n.Ents {
			var k string
			switch n.Ents[i].Key.K {
			case "str":
				k = n.Ents[i].Key.Str
			case "int", "uint":
				k = strconv.Itoa(n.Ents[i].Key.Int.M[0])
				if n.Ents[i].Key.Int.Neg {
					k = "-" + k
				}
			case "bool":
				k = strconv.FormatBool(n.Ents[i].Key.Bool)
			default:
				continue
			}
			walk(&n.Ents[i].Val, append(prefix, k), depth-1, out)
		}
		*out = append(*out, pathInfo{append(append([]string{}, prefix...), "zz"), nil})
	case "list":
		for i := range n.List {
			if i < 3 {
				walk(&n.List[i], append(prefix, strconv.Itoa(i)), depth-1, out)
			}
		}
		*out = append(*out, pathInfo{append(append([]string{}, prefix...), "9"), nil})
	case "struct":
		for i := range n.F {
			walk(&n.F[i].V, append(prefix, n.F[i].N), depth-1, out)
			if t, ok := n.F[i].Tags["bexpr"]; ok && t != "-" && t != "" {
				*out = append(*out, pathInfo{append(append([]string{}, prefix...), "name"), &n.F[i].V})
			}
		}
	}
}

var litPool = []string{"", "0", "1", "-1", "7", "0x7", "1.5", "2.5", "true", "T", "a", "hello", "ell", "x", "k", "abc", "1e7", "0.1", "NaN", "99999999999999999999", "^h", "l{2}", "(", "9007199254740993", "9007199254740992"}

func ownLits(n *av.AV) []string {
	if n == nil {
		return nil
	}
	for n.K == "ptr" {
		n = n.To
	}
	switch n.K {
	case "str", "jnum":
		if len(n.Str) < 20 {
			return []string{n.Str}
		}
	case "bool":
		return []string{strconv.FormatBool(n.Bool)}
	case "int", "uint":
		m := uint64(n.Int.M[0]) | uint64(n.Int.M[1])<<16 | uint64(n.Int.M[2])<<32 | uint64(n.Int.M[3])<<48
		s := strconv.FormatUint(m, 10)
		if n.Int.Neg {
			s = "-" + s
		}
		return []string{s}
	case "list":
		if len(n.List) > 0 {
			return ownLits(&n.List[len(n.List)-1])
		}
	case "map":
		if len(n.Ents) > 0 && n.Ents[0].Key.K == "str" {
			return []string{n.Ents[0].Key.Str}
		}
	}
	return nil
}

var allOps = []string{"==", "!=", "in", "notin", "empty", "notempty", "matches", "notmatches"}

func (g *gen) atom(paths []pathInfo, alias string) *expr.Expr {
	p := paths[g.r.Intn(len(paths))]
	for i := 0; i < 3 && p.node == nil; i++ { // prefer selectors that resolve
		p = paths[g.r.Intn(len(paths))]
	}
	path := p.path
	if alias != "" && g.r.Intn(2) == 0 {
		path = append([]string{alias}, []string{"", "a", "x", "0", "id"}[g.r.Intn(5)])
		if path[1] == "" {
			path = path[:1]
		}
	}
	if len(path) == 0 {
		path = []string{"zz"}
	}
	op := allOps[g.r.Intn(len(allOps))]
	e := &expr.Expr{T: "match", Sel: &expr.Sel{Ty: "bexpr", Path: path}, Op: op}
	if op != "empty" && op != "notempty" {
		e.HV = true
		own := ownLits(p.node)
		if len(own) > 0 && g.r.Intn(2) == 0 {
			e.Val = own[g.r.Intn(len(own))]
		} else {
			e.Val = litPool[g.r.Intn(len(litPool))]
		}
	}
	return e
}

func (g *gen) tree(paths []pathInfo, depth int, alias string) *expr.Expr {
	n := g.r.Intn(100)
	switch {
	case depth <= 0 || n < 45:
		return g.atom(paths, alias)
	case n < 55:
		e := g.tree(paths, depth-1, alias)
		if e.T == "not" {
			return e
		}
		return &expr.Expr{T: "not", E: e}
	case n < 80:
		return &expr.Expr{T: []string{"and", "or"}[g.r.Intn(2)], L: g.tree(paths, depth-1, alias), R: g.tree(paths, depth-1, alias)}
	default:
		p := paths[g.r.Intn(len(paths))].path
		if len(p) == 0 {
			p = []string{"zz"}
		}
		mode := []string{"default", "index", "value", "both"}[g.r.Intn(4)]
		e := &expr.Expr{T: "coll", Op: []string{"any", "all"}[g.r.Intn(2)], Sel: &expr.Sel{Ty: "bexpr", Path: p}, Mode: mode}
		al := ""
		switch mode {
		case "default":
			e.N1, al = "v", "v"
		case "index":
			e.N1, al = "k", "k"
		case "value":
			e.N2, al = "v", "v"
		case "both":
			e.N1, e.N2, al = "k", "v", "v"
		}
		e.E = g.tree(paths, depth-1, al)
		return e
	}
}

func cmdRandEval(args []string) error {
	fs := flag.NewFlagSet("randeval", flag.ExitOnError)
	seed := fs.Int64("seed", 1, "seed")
	ndocs := fs.Int("docs", 40, "documents")
	per := fs.Int("per", 50, "expressions per document")
	out := fs.String("out", "rand.json", "output")
	fs.Parse(args)
	g := &gen{rand.New(rand.NewSource(*seed))}
	all := run.Cfgs()
	cfgsel := []int{0, 2, 5, 1}
	type caseJSON struct {
		E *expr.Expr `json:"e"`
		D int        `json:"d"`
		C int        `json:"c"`
		O string     `json:"o"`
		T string     `json:"text"`
	}
	var docs []docJSON
	var cases []caseJSON
	never := []caseJSON{}
	for di := 0; di < *ndocs; di++ {
		root := map[string]interface{}{}
		for i, k := 0, 3+g.r.Intn(5); i < k; i++ {
			key := []string{"a", "b", "c", "m", "l", "s", "n", "x", "foo", "st"}[g.r.Intn(10)]
			root[key] = g.value(3)
		}
		a := av.Abstract(reflect.ValueOf(root))
		docs = append(docs, docJSON{Name: fmt.Sprintf("rand%d", di), AV: a})
		var paths []pathInfo
		walk(&a, nil, 3, &paths)
		paths = paths[1:]
		if len(paths) == 0 {
			continue
		}
		for k := 0; k < *per; k++ {
			t := g.tree(paths, 2, "")
			text, err := expr.Render(t, expr.Style{})
			if err != nil {
				continue
			}
			ci := g.r.Intn(len(cfgsel))
			ev, o := run.Create(text, all[cfgsel[ci]].Options()...)
			if ev == nil {
				_ = o
				continue
			}
			got := run.Eval(ev, root)
			c := caseJSON{E: t, D: di + 1, C: ci + 1, O: got.O, T: text}
			if got.O != "T" && got.O != "F" && got.O != "E" {
				c.O = got.O + ": " + got.Panic + got.Err
				never = append(never, c)
				continue
			}
			cases = append(cases, c)
		}
	}
	var cfgs []run.Cfg
	for _, i := range cfgsel {
		cfgs = append(cfgs, all[i])
	}
	b, _ := json.Marshal(map[string]interface{}{"docs": docs, "cfgs": cfgs, "cases": cases, "never": never})
	return os.WriteFile(*out, b, 0o644)
}
