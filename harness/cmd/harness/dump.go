package main

import (
	"bufio"
	"bytes"
	"encoding/json"
	"flag"
	"fmt"
	"os"
	"strconv"
	"strings"

	"github.com/hashicorp/go-bexpr/grammar"
	"verif/harness/expr"
)

func init() { cmds["dump"] = cmdDump }

// cmdDump compares ExpressionDump of parser-produced trees with the lines the specification prescribes.
func cmdDump(args []string) error {
	fs := flag.NewFlagSet("dump", flag.ExitOnError)
	tf := fs.String("trees", "trees.json", "JSON list of [{tree, text}] (text = a rendering of the tree)")
	cf := fs.String("cases", "cases.ndjson", "lines printed by TLC (Dump)")
	fs.Parse(args)
	b, err := os.ReadFile(*tf)
	if err != nil {
		return err
	}
	var trees []struct {
		Text string `json:"text"`
	}
	if err := json.Unmarshal(b, &trees); err != nil {
		return err
	}
	f, err := os.Open(*cf)
	if err != nil {
		return err
	}
	defer f.Close()
	type bad struct {
		Text   string `json:"text"`
		Indent string `json:"indent"`
		Level  int    `json:"level"`
		What   string `json:"what"`
		Spec   string `json:"spec"`
		Impl   string `json:"impl"`
	}
	var bads []bad
	n, dumps := 0, 0
	var sample interface{}
	indents := []string{"", " ", "\t", "ab", "   ", "    ", "        ", " \t", "%s", "%"}
	levels := []int{0, 1, 3, 5, 9, 11}
	sc := bufio.NewScanner(f)
	sc.Buffer(make([]byte, 1<<20), 1<<26)
	for sc.Scan() {
		var c struct {
			N     int `json:"n"`
			Lines []struct {
				Lv int    `json:"lv"`
				S  string `json:"s"`
				Hq bool   `json:"hq"`
				Q  string `json:"q"`
			} `json:"lines"`
		}
		if err := json.Unmarshal(sc.Bytes(), &c); err != nil {
			return err
		}
		t := trees[c.N-1]
		ast, perr := grammar.Parse("", []byte(t.Text))
		if perr != nil {
			continue
		}
		n++
		for _, ind := range indents {
			for _, lv := range levels {
				var want strings.Builder
				for _, l := range c.Lines {
					want.WriteString(strings.Repeat(ind, lv+l.Lv))
					want.WriteString(l.S)
					if l.Hq {
						want.WriteString(strconv.Quote(l.Q))
					}
					want.WriteString("\n")
				}
				got, again := "", ""
				func() {
					defer func() {
						if r := recover(); r != nil {
							got = fmt.Sprint("PANIC: ", r)
						}
					}()
					var buf, buf2 bytes.Buffer
					ast.(grammar.Expression).ExpressionDump(&buf, ind, lv)
					ast.(grammar.Expression).ExpressionDump(&buf2, ind, lv)
					got, again = buf.String(), buf2.String()
				}()
				dumps++
				if got != want.String() {
					if len(bads) < 60 {
						bads = append(bads, bad{Text: t.Text, Indent: ind, Level: lv, What: "rendering", Spec: want.String(), Impl: got})
					}
				} else if again != got {
					bads = append(bads, bad{Text: t.Text, Indent: ind, Level: lv, What: "two dumps of the same tree differ", Spec: got, Impl: again})
				}
				if sample == nil && n == 7 && ind == "  " {
					sample = map[string]interface{}{"text": t.Text, "dump": got}
				}
			}
		}
		if sample == nil && n == 7 {
			var buf bytes.Buffer
			ast.(grammar.Expression).ExpressionDump(&buf, "  ", 0)
			sample = map[string]interface{}{"text": t.Text, "dump": buf.String()}
		}
	}
	_ = expr.Same
	if bads == nil {
		bads = []bad{}
	}
	return json.NewEncoder(os.Stdout).Encode(map[string]interface{}{"trees": n, "dumps": dumps, "bad": bads, "sample": sample})
}
