package main

import (
	"encoding/json"
	"flag"
	"fmt"
	"os"
	"strconv"
	"strings"
	"unicode/utf8"

	"github.com/hashicorp/go-bexpr/grammar"
	"verif/harness/expr"
	"verif/harness/run"
)

func init() { cmds["fidelity"] = cmdFidelity }

// cmdFidelity: for every string s and every literal style able to spell it, `X == <quoted s>` must be true of X = s.
func cmdFidelity(args []string) error {
	fs := flag.NewFlagSet("fidelity", flag.ExitOnError)
	in := fs.String("strings", "strings.json", "JSON list of symbol sequences")
	fs.Parse(args)
	b, err := os.ReadFile(*in)
	if err != nil {
		return err
	}
	var strs [][]string
	if err := json.Unmarshal(b, &strs); err != nil {
		return err
	}
	type bad struct {
		S     string `json:"s"`
		Style string `json:"style"`
		Text  string `json:"text"`
		What  string `json:"what"`
		Raw   string `json:"raw"`
	}
	var out []bad
	n, spelled := 0, 0
	// every string, and for strings with class symbols also the other members of the classes
	var all []string
	for _, ss := range strs {
		all = append(all, string(bytesOf(ss)))
		if hasClassSym(ss) {
			for _, alt := range symAlt {
				all = append(all, string(bytesAlt(ss, alt)))
			}
		}
	}
	for _, s := range all {
		n++
		for _, st := range []string{"dq", "raw", "bare", "ident"} {
			q, err := expr.Quote(s, st)
			if err != nil {
				continue
			}
			for _, text := range []string{"X == " + q, "X==" + q, q + " in L"} {
				spelled++
				ast, perr := grammar.Parse("", []byte(text))
				if perr != nil {
					out = append(out, bad{S: s, Style: st, Text: text, What: "rejected: " + perr.Error()})
					continue
				}
				m, ok := ast.(*grammar.MatchExpression)
				if !ok || m.Value == nil {
					out = append(out, bad{S: s, Style: st, Text: text, What: "not a match expression with a value"})
					continue
				}
				if m.Value.Raw != s {
					out = append(out, bad{S: s, Style: st, Text: text, What: "the literal does not denote the string it spells", Raw: m.Value.Raw})
					continue
				}
				ev, o := run.Create(text)
				if ev == nil {
					out = append(out, bad{S: s, Style: st, Text: text, What: "CreateEvaluator: " + o.O})
					continue
				}
				if r := run.Eval(ev, map[string]interface{}{"X": s, "L": []string{"other", s}}); r.O != "T" {
					out = append(out, bad{S: s, Style: st, Text: text, What: "evaluates to " + r.O + " on X = s"})
				}
			}
		}
	}
	// the other direction: spellings that the renderer never chooses - a carriage return inside backticks (Go drops it), every
	// byte written as hex or octal escape, every rune as \u / \U escape; the Go string a spelling denotes is strconv.Unquote's
	for _, s := range all {
		var sp []string
		if !strings.Contains(s, "`") && utf8.ValidString(s) {
			sp = append(sp, "`\r"+s+"`", "`"+s+"\r`", "`"+s+"\r\n"+s+"`")
			if _, n := utf8.DecodeRuneInString(s); n > 0 && n < len(s) {
				sp = append(sp, "`"+s[:n]+"\r"+s[n:]+"`")
			}
		}
		var hx, oc strings.Builder
		for i := 0; i < len(s); i++ {
			fmt.Fprintf(&hx, "\\x%02x", s[i])
			fmt.Fprintf(&oc, "\\%03o", s[i])
		}
		sp = append(sp, "\""+hx.String()+"\"", "\""+oc.String()+"\"", strconv.QuoteToASCII(s))
		if utf8.ValidString(s) {
			var u strings.Builder
			for _, r := range s {
				if r > 0xffff {
					fmt.Fprintf(&u, "\\U%08x", r)
				} else {
					fmt.Fprintf(&u, "\\u%04X", r)
				}
			}
			sp = append(sp, "\""+u.String()+"\"")
		}
		for _, q := range sp {
			want, err := strconv.Unquote(q)
			if err != nil || (q[0] == '"' && strings.Contains(q[1:len(q)-1], "\"")) {
				continue // the language has no way to write a double quote inside a double-quoted literal
			}
			for _, text := range []string{"X == " + q, q + " in L"} {
				spelled++
				ast, perr := grammar.Parse("", []byte(text))
				if perr != nil {
					out = append(out, bad{S: want, Style: "spelling", Text: text, What: "rejected: " + perr.Error()})
					continue
				}
				m, ok := ast.(*grammar.MatchExpression)
				if !ok || m.Value == nil {
					out = append(out, bad{S: want, Style: "spelling", Text: text, What: "not a match expression with a value"})
					continue
				}
				if m.Value.Raw != want {
					out = append(out, bad{S: want, Style: "spelling", Text: text, What: "the literal does not denote the string it spells", Raw: m.Value.Raw})
					continue
				}
				ev, o := run.Create(text)
				if ev == nil {
					out = append(out, bad{S: want, Style: "spelling", Text: text, What: "CreateEvaluator: " + o.O})
					continue
				}
				if r := run.Eval(ev, map[string]interface{}{"X": want, "L": []string{"other", want}}); r.O != "T" {
					out = append(out, bad{S: want, Style: "spelling", Text: text, What: "evaluates to " + r.O + " on X = s"})
				}
			}
		}
	}
	if len(out) > 300 {
		out = out[:300]
	}
	if out == nil {
		out = []bad{}
	}
	return json.NewEncoder(os.Stdout).Encode(map[string]interface{}{"strings": n, "spellings": spelled, "bad": out})
}
