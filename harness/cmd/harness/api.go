package main

import (
	"bufio"
	"encoding/json"
	"flag"
	"fmt"
	"os"
	"reflect"
	"sort"

	bexpr "github.com/hashicorp/go-bexpr"
	"verif/harness/av"
	"verif/harness/expr"
	"verif/harness/run"
	"verif/harness/zoo"
)

func init() { cmds["api"] = cmdApi }

type apiWorld struct {
	Mode   string      `json:"mode"`
	Worlds []string    `json:"worlds"`
	Docs   []docRaw    `json:"docs"`
	Conts  []docRaw    `json:"conts"`
	CfgSel []int       `json:"cfgsel"`
	Exprs  []expr.Expr `json:"exprs"`
	Evs    []struct {
		E int  `json:"e"`
		C int  `json:"c"`
		F bool `json:"f"`
	} `json:"evs"`
	Options []optJSON `json:"options"`
	Probes  []struct {
		E int `json:"e"`
		D int `json:"d"`
	} `json:"probes"`
	Steps []int `json:"steps"`
}

type optJSON struct {
	O string          `json:"o"`
	V json.RawMessage `json:"v"`
	N string          `json:"n"` // name of the unknown value (for rebuilding it natively)
}

func snapshot(v interface{}) string {
	b, _ := json.Marshal(av.Abstract(reflect.ValueOf(v)))
	return string(b)
}

func freshDoc(worlds []string, i int) interface{} {
	k := 0
	for _, wn := range worlds {
		ds := zoo.World(wn)
		if i < k+len(ds) {
			return ds[i-k].V
		}
		k += len(ds)
	}
	panic("document index out of range")
}

// execute runs Filter.Execute recovering panics; the result is described as a string (error / the result's AV)
func execute(f *bexpr.Filter, data interface{}) (res interface{}, desc string) {
	defer func() {
		if r := recover(); r != nil {
			res, desc = nil, "PANIC: "+fmt.Sprint(r)
		}
	}()
	out, err := f.Execute(data)
	switch {
	case err != nil && out != nil:
		return out, "BOTH:" + snapshot(out)
	case err != nil:
		return nil, "E"
	}
	return out, "ok:" + snapshot(out)
}

func cmdApi(args []string) error {
	fs := flag.NewFlagSet("api", flag.ExitOnError)
	wf := fs.String("world", "world.json", "world file")
	cf := fs.String("cases", "cases.ndjson", "cases printed by TLC")
	gf := fs.String("groups", "groups.ndjson", "observation groups for spec/Rel.tla")
	of := fs.String("out", "api.json", "summary")
	fs.Parse(args)
	b, err := os.ReadFile(*wf)
	if err != nil {
		return err
	}
	var w apiWorld
	if err := json.Unmarshal(b, &w); err != nil {
		return err
	}
	all := run.Cfgs()
	var cfgs []run.Cfg
	for _, i := range w.CfgSel {
		cfgs = append(cfgs, all[i])
	}
	// the documents TLC saw must be the ones the zoo builds
	for i := range w.Docs {
		if !sameJSON([]byte(snapshot(freshDoc(w.Worlds, i))), w.Docs[i].AV) {
			return fmt.Errorf("document %d differs from the world file", i)
		}
	}
	texts := make([]string, len(w.Exprs))
	for i := range w.Exprs {
		t, err := expr.Render(&w.Exprs[i], expr.Style{})
		if err != nil {
			return fmt.Errorf("expression %d cannot be rendered: %v", i, err)
		}
		texts[i] = t
	}
	f, err := os.Open(*cf)
	if err != nil {
		return err
	}
	defer f.Close()
	g, err := os.Create(*gf)
	if err != nil {
		return err
	}
	defer g.Close()
	ctx := &relCtx{out: bufio.NewWriter(g), skip: map[string]int{}, byRel: map[string]int{}}
	if w.Mode == "hist" {
		// Expression() returns the creation string byte for byte, whatever surrounds the expression
		for _, t := range texts {
			for _, src := range []string{t, " " + t, t + " ", "\t" + t + "\n", "  " + t + "  ", "\n\n" + t, t + "\r\n"} {
				ev, _ := run.Create(src)
				if ev != nil {
					ctx.emit(group{Rel: "flag", Ok: ev.Expression() == src, Info: map[string]interface{}{"law": "Expression() returns the source", "src": src, "got": ev.Expression()}})
				}
			}
		}
	}
	sum := map[string]interface{}{}
	sc := bufio.NewScanner(f)
	sc.Buffer(make([]byte, 1<<20), 1<<28)
	cases, evals := 0, 0
	var specMismatch []interface{}
	reused := map[string]*bexpr.Filter{}
	optObs := map[string][]string{}  // (probe, key) -> observations
	optInfo := map[string][]string{} // -> option lists
	for sc.Scan() {
		cases++
		switch w.Mode {
		case "hist":
			var c struct {
				H []struct {
					Ev int `json:"ev"`
					D  int `json:"d"`
				} `json:"h"`
				X []json.RawMessage `json:"x"`
			}
			if err := json.Unmarshal(sc.Bytes(), &c); err != nil {
				return err
			}
			// long-lived objects of this history
			evs := map[int]*bexpr.Evaluator{}
			fls := map[int]*bexpr.Filter{}
			docs := map[int]interface{}{}
			var hdesc []string
			for _, call := range c.H {
				hdesc = append(hdesc, fmt.Sprintf("%s(%s)", texts[w.Evs[call.Ev-1].E-1], w.Docs[call.D-1].Name))
			}
			for i, call := range c.H {
				evd := w.Evs[call.Ev-1]
				src := texts[evd.E-1]
				if _, ok := docs[call.D]; !ok {
					docs[call.D] = freshDoc(w.Worlds, call.D-1)
				}
				d := docs[call.D]
				before := snapshot(d)
				var got, fresh string
				if evd.F {
					if fls[call.Ev] == nil {
						fl, err := bexpr.CreateFilter(src)
						if err != nil {
							return fmt.Errorf("filter %q: %v", src, err)
						}
						fls[call.Ev] = fl
					}
					_, got = execute(fls[call.Ev], d)
					ff, _ := bexpr.CreateFilter(src)
					_, fresh = execute(ff, freshDoc(w.Worlds, call.D-1))
				} else {
					if evs[call.Ev] == nil {
						ev, o := run.Create(src, cfgs[evd.C-1].Options()...)
						if ev == nil {
							return fmt.Errorf("evaluator %q: %s", src, o.O)
						}
						evs[call.Ev] = ev
						if ev.Expression() != src {
							ctx.emit(group{Rel: "flag", Ok: false, Info: map[string]interface{}{"law": "Expression() returns the source", "src": src, "got": ev.Expression()}})
						}
					}
					got = run.Eval(evs[call.Ev], d).O
					fe, _ := run.Create(src, cfgs[evd.C-1].Options()...)
					fresh = run.Eval(fe, freshDoc(w.Worlds, call.D-1)).O
				}
				evals += 2
				after := snapshot(d)
				info := map[string]interface{}{"history": hdesc, "call": i + 1}
				short := func(s string) string {
					if len(s) > 3 && s[:3] == "ok:" {
						return "T" // an Execute result: encode equality through the flag below
					}
					return s
				}
				if evd.F {
					ctx.emit(group{Rel: "flag", Ok: got == fresh, Info: map[string]interface{}{"law": "Execute after this history = Execute on a fresh filter", "history": hdesc, "call": i + 1, "got": trunc(got), "fresh": trunc(fresh)}})
				} else {
					ctx.emit(group{Rel: "same", Obs: []string{short(got), short(fresh)}, Info: info})
				}
				if before != after {
					ctx.emit(group{Rel: "flag", Ok: false, Info: map[string]interface{}{"law": "the datum is not modified", "history": hdesc, "call": i + 1}})
				}
			}
			ctx.emit(group{Rel: "flag", Ok: true, Info: map[string]interface{}{"law": "history completed", "history": hdesc}})
		case "opts":
			var c struct {
				Opts []optJSON `json:"opts"`
				X    []string  `json:"x"`
				Keys []string  `json:"keys"`
			}
			if err := json.Unmarshal(sc.Bytes(), &c); err != nil {
				return err
			}
			var opts []bexpr.Option
			var names []string
			for _, o := range c.Opts {
				var sv string
				var iv int
				switch o.O {
				case "tag":
					json.Unmarshal(o.V, &sv)
					opts = append(opts, bexpr.WithTagName(sv))
					names = append(names, "tag="+sv)
				case "hook":
					json.Unmarshal(o.V, &sv)
					if sv == "none" {
						opts = append(opts, bexpr.WithHookFn(nil))
					} else {
						opts = append(opts, bexpr.WithHookFn(run.HookFn(sv)))
					}
					names = append(names, "hook="+sv)
				case "unknown":
					opts = append(opts, bexpr.WithUnknownValue(unknownByName(o.N)))
					names = append(names, "unknown="+o.N)
				case "max":
					json.Unmarshal(o.V, &iv)
					opts = append(opts, bexpr.WithMaxExpressions(uint64(iv)))
					names = append(names, fmt.Sprintf("max=%d", iv))
				case "nil":
					opts = append(opts, nil)
					names = append(names, "nil")
				}
			}
			for pi, p := range w.Probes {
				src := texts[p.E-1]
				ev, o := run.Create(src, opts...)
				var obs string
				if ev == nil {
					obs = o.O
				} else {
					d := freshDoc(w.Worlds, p.D-1)
					o1 := run.Eval(ev, d).O
					run.Eval(ev, d)
					o3 := run.Eval(ev, d).O
					obs = o1
					if o3 != o1 {
						obs = o1 + "/" + o3
					}
					evals += 3
				}
				k := fmt.Sprintf("%d|%s", pi, c.Keys[pi])
				optObs[k] = append(optObs[k], obs)
				optInfo[k] = append(optInfo[k], fmt.Sprint(names))
				if obs != c.X[pi] && len(specMismatch) < 50 {
					specMismatch = append(specMismatch, map[string]interface{}{"options": names, "probe": src, "spec": c.X[pi], "impl": obs})
				}
			}
		case "filter":
			var c struct {
				F int `json:"f"`
				C int `json:"c"`
				X struct {
					R    string `json:"r"`
					Kept []int  `json:"kept"`
					Ty   string `json:"ty"`
				} `json:"x"`
			}
			if err := json.Unmarshal(sc.Bytes(), &c); err != nil {
				return err
			}
			src := texts[c.F-1]
			cont := zoo.World("conts")[c.C-1]
			info := func(law string) map[string]interface{} {
				return map[string]interface{}{"law": law, "filter": src, "container": cont.Name}
			}
			fl, err := bexpr.CreateFilter(src)
			if err != nil || fl == nil {
				return fmt.Errorf("filter %q: %v", src, err)
			}
			before := snapshot(cont.V)
			res, desc := execute(fl, cont.V)
			evals++
			// one long-lived filter per expression sees every container in turn: it must behave like the fresh one
			if reused[src] == nil {
				reused[src], _ = bexpr.CreateFilter(src)
			}
			if _, rdesc := execute(reused[src], zoo.World("conts")[c.C-1].V); rdesc != desc {
				ctx.emit(group{Rel: "flag", Ok: false, Info: map[string]interface{}{"law": "Execute on a reused filter = Execute on a fresh filter", "filter": src, "container": cont.Name, "fresh": trunc(desc), "reused": trunc(rdesc)}})
			}
			if snapshot(cont.V) != before {
				ctx.emit(group{Rel: "flag", Ok: false, Info: info("Execute does not modify its input")})
			}
			// relation with Evaluate on every element (real code against real code)
			ev, _ := run.Create(src)
			in := reflect.ValueOf(cont.V)
			var elems []reflect.Value
			var keys []reflect.Value
			isCont := in.IsValid() && (in.Kind() == reflect.Slice || in.Kind() == reflect.Array || in.Kind() == reflect.Map)
			anyErr := false
			var keptIdx []int
			if isCont {
				if in.Kind() == reflect.Map {
					keys = in.MapKeys()
					sort.Slice(keys, func(i, j int) bool { return snapshot(keys[i].Interface()) < snapshot(keys[j].Interface()) })
					// the AV orders entries by key; use the same order so that positions agree with the specification
					a := av.Abstract(in)
					keys = keys[:0]
					for _, e := range a.Ents {
						for _, k := range in.MapKeys() {
							kj, _ := json.Marshal(av.Abstract(k))
							ej, _ := json.Marshal(e.Key)
							if string(kj) == string(ej) {
								keys = append(keys, k)
								break
							}
						}
					}
					for _, k := range keys {
						elems = append(elems, in.MapIndex(k))
					}
				} else {
					for i := 0; i < in.Len(); i++ {
						elems = append(elems, in.Index(i))
					}
				}
				for i, e := range elems {
					o := run.Eval(ev, e.Interface()).O
					evals++
					if o == "T" {
						keptIdx = append(keptIdx, i+1)
					} else if o != "F" {
						anyErr = true
					}
				}
			}
			// what Execute must return according to Evaluate on the elements
			wantDesc := "E"
			if isCont && !anyErr {
				var out reflect.Value
				switch in.Kind() {
				case reflect.Map:
					out = reflect.MakeMap(in.Type())
					for _, i := range keptIdx {
						out.SetMapIndex(keys[i-1], elems[i-1])
					}
				case reflect.Array:
					out = reflect.MakeSlice(reflect.SliceOf(in.Type().Elem()), 0, 0)
					for _, i := range keptIdx {
						out = reflect.Append(out, elems[i-1])
					}
				default:
					out = reflect.MakeSlice(in.Type(), 0, 0)
					for _, i := range keptIdx {
						out = reflect.Append(out, elems[i-1])
					}
				}
				wantDesc = "ok:" + snapshot(out.Interface())
			}
			ctx.emit(group{Rel: "flag", Ok: desc == wantDesc, Info: map[string]interface{}{"law": "Execute keeps exactly the elements on which Evaluate is true", "filter": src, "container": cont.Name, "execute": trunc(desc), "evaluate": trunc(wantDesc)}})
			// against the specification
			specDesc := c.X.R
			if c.X.R == "ok" {
				specDesc = fmt.Sprintf("ok kept=%v type=%s", c.X.Kept, c.X.Ty)
			}
			implDesc := desc
			if len(desc) > 3 && desc[:3] == "ok:" {
				implDesc = fmt.Sprintf("ok kept=%v type=%s", orEmpty(keptIdx), reflect.TypeOf(res).String())
				if desc != wantDesc {
					implDesc += " (elements differ)"
				}
			}
			if c.X.R != "?" && specDesc != implDesc && len(specMismatch) < 50 {
				specMismatch = append(specMismatch, map[string]interface{}{"filter": src, "container": cont.Name, "spec": specDesc, "impl": trunc(implDesc)})
			}
			if rv := reflect.ValueOf(res); res != nil && rv.Kind() == reflect.Slice && in.IsValid() && in.Kind() == reflect.Slice && rv.Len() > 0 && in.Len() > 0 {
				ctx.emit(group{Rel: "flag", Ok: rv.Pointer() != in.Pointer(), Info: info("Execute returns a new slice, not the input's storage")})
			}
			if desc != "E" && res != nil {
				// idempotence, and E / not E partition the container when nothing errors
				_, again := execute(fl, res)
				ctx.emit(group{Rel: "flag", Ok: again == desc, Info: info("Execute is idempotent")})
				nf, _ := bexpr.CreateFilter("not (" + src + ")")
				nres, ndesc := execute(nf, cont.V)
				if nres != nil && ndesc != "E" {
					n1, n2 := reflect.ValueOf(res).Len(), reflect.ValueOf(nres).Len()
					ctx.emit(group{Rel: "flag", Ok: n1+n2 == len(elems), Info: info("E and not E partition the container")})
				}
			}
			var nilf *bexpr.Filter
			same, nerr := nilf.Execute(cont.V)
			okNil := snapshot(same) == before && nerr == nil
			ctx.emit(group{Rel: "flag", Ok: okNil, Info: info("a nil Filter returns its input (and no error)")})
		}
	}
	if err := sc.Err(); err != nil {
		return err
	}
	if w.Mode == "opts" {
		for k, obs := range optObs {
			ctx.emit(group{Rel: "same", Obs: compress(obs), Info: map[string]interface{}{"law": "option lists with the same meaning give the same evaluator", "key": k, "lists": firstN(optInfo[k], 6), "n": len(obs)}})
		}
	}
	ctx.out.Flush()
	sum["cases"], sum["groups"], sum["byrel"], sum["evals"], sum["specmismatch"], sum["samples"] = cases, ctx.n, ctx.byRel, evals, specMismatch, ctx.sample
	out, _ := json.MarshalIndent(sum, "", " ")
	return os.WriteFile(*of, out, 0o644)
}

func orEmpty(x []int) []int {
	if x == nil {
		return []int{}
	}
	return x
}

func firstN(s []string, n int) []string {
	if len(s) > n {
		return s[:n]
	}
	return s
}

func trunc(s string) string {
	if len(s) > 300 {
		return s[:300] + "..."
	}
	return s
}

func unknownByName(n string) interface{} {
	switch n {
	case "str":
		return "unk"
	case "empty":
		return ""
	case "int":
		return 0
	case "nil":
		return nil
	case "list":
		return []interface{}{"unk", 1}
	}
	return n
}
