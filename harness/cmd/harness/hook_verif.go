//go:build verif

package main

import (
	"reflect"
	"strings"

	"github.com/hashicorp/go-bexpr/grammar"
)

// the kinds of parsing expressions, numbered as in spec/Peg.tla (Code)
var kindCode = map[string]uint64{"choiceExpr": 1, "seqExpr": 2, "actionExpr": 3, "labeledExpr": 4, "ruleRefExpr": 5, "litMatcher": 6, "charClassMatcher": 7,
	"anyMatcher": 8, "andCodeExpr": 9, "notExpr": 10, "andExpr": 11, "zeroOrOneExpr": 12, "zeroOrMoreExpr": 13, "oneOrMoreExpr": 14}
var codeOf = map[reflect.Type]uint64{}

// installStepHook makes the parser report its steps (grammar/verif_on.go, build tag verif): the step counter, and a running hash
// of (kind of expression, position) over the whole step sequence - the step trace that spec/Peg.tla computes for the same input.
func installStepHook() {
	grammar.VerifStep = func(cnt uint64, e any, off int) {
		stepCount = cnt
		t := reflect.TypeOf(e)
		c, ok := codeOf[t]
		if !ok {
			name := t.String()
			c = kindCode[name[strings.LastIndex(name, ".")+1:]]
			if c == 0 {
				c = 99
			}
			codeOf[t] = c
		}
		pos := uint64(off + 1)
		if symAt != nil && off < len(symAt) {
			pos = uint64(symAt[off])
		}
		stepHash = (stepHash*31 + c*131 + pos) % 16777213
	}
}
