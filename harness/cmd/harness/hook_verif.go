//go:build verif

package main

import "github.com/hashicorp/go-bexpr/grammar"

// installStepHook makes the parser report its step counter (grammar/verif_on.go, build tag verif).
func installStepHook() {
	grammar.VerifStep = func(cnt uint64, e any, off int) { stepCount = cnt }
}
