package main

import (
	"bufio"
	"encoding/json"
	"flag"
	"fmt"
	"os"
	"reflect"
	"sort"
	"strings"

	"github.com/hashicorp/go-bexpr/grammar"
	"verif/harness/av"
	"verif/harness/expr"
	"verif/harness/run"
)

func init() { cmds["relate"] = cmdRelate }

// group is one family of observations of the real code, judged by spec/Rel.tla.
type group struct {
	Rel  string      `json:"rel"`
	A    string      `json:"a,omitempty"`
	B    string      `json:"b,omitempty"`
	R    string      `json:"r,omitempty"`
	Op   string      `json:"op,omitempty"`
	El   []string    `json:"el,omitempty"`
	Obs  []string    `json:"obs,omitempty"`
	Ok   bool        `json:"ok"`
	Info interface{} `json:"info"`
}

type partsJSON struct {
	Ok    bool     `json:"ok"`
	Kind  string   `json:"kind"`
	Parts []string `json:"parts"`
}

type relCtx struct {
	w      *world
	docs   []interface{}
	cfgs   []run.Cfg
	out    *bufio.Writer
	n      int
	skip   map[string]int
	byRel  map[string]int
	cache  map[string]map[int][]string // text -> cfg -> outcomes per doc
	errTxt map[string]map[int][]string // text -> cfg -> error texts per doc
	marks  map[int][]string            // c08: first document of a pair -> strings that only one document of the pair contains
	evals  int
	sample []interface{}
	reps   int

	skipText []string
}

func (c *relCtx) emit(g group) {
	m := map[string]interface{}{"rel": g.Rel, "info": g.Info}
	switch g.Rel {
	case "and", "or":
		m["a"], m["b"], m["r"] = g.A, g.B, g.R
	case "not", "neg":
		m["a"], m["r"], m["op"] = g.A, g.R, g.Op
	case "any", "all":
		el := g.El
		if el == nil {
			el = []string{}
		}
		m["el"], m["r"] = el, g.R
	case "same":
		m["obs"] = g.Obs
	case "absent":
		m["op"], m["r"] = g.Op, g.R
	case "flag":
		m["ok"] = g.Ok
	}
	b, _ := json.Marshal(m)
	c.out.Write(b)
	c.out.WriteByte('\n')
	c.n++
	c.byRel[g.Rel]++
	if len(c.sample) < 6 && c.n%53 == 1 {
		c.sample = append(c.sample, g)
	}
}

// obs evaluates a tree (rendered in the given style) on document di under configuration ci with the real code.
// It returns "" when the tree cannot be expressed or does not parse back to itself.
func (c *relCtx) obs(t *expr.Expr, st expr.Style, ci, di int) (string, string) {
	text, err := expr.Render(t, st)
	if err != nil {
		c.skip["render"]++
		return "", ""
	}
	key := text
	if m, ok := c.cache[key]; ok {
		if o, ok := m[ci]; ok {
			return o[di], text
		}
	}
	ast, perr := grammar.Parse("", []byte(text))
	if perr != nil {
		c.skip["parse error"]++
		return "", text
	}
	if !expr.Same(expr.FromAST(ast.(grammar.Expression)), t, false) {
		c.skip["parses to a different tree"]++
		if len(c.skipText) < 12 {
			c.skipText = append(c.skipText, text)
		}
		return "", text
	}
	ev, o := run.Create(text, c.cfgs[ci].Options()...)
	if ev == nil {
		c.skip["create "+o.O]++
		return "", text
	}
	outs := make([]string, len(c.docs))
	errs := make([]string, len(c.docs))
	for i, d := range c.docs {
		o := run.Eval(ev, d)
		outs[i], errs[i] = o.O, o.Err
		c.evals++
	}
	if c.cache[key] == nil {
		c.cache[key] = map[int][]string{}
		c.errTxt[key] = map[int][]string{}
	}
	c.cache[key][ci] = outs
	c.errTxt[key][ci] = errs
	return outs[di], text
}

// pairMarks: the strings (3 characters and more) that occur in exactly one document of the pair (di, di+1) - by construction of
// the pair worlds, content of hidden or unexported fields.
func (c *relCtx) pairMarks(di int) []string {
	if m, ok := c.marks[di]; ok {
		return m
	}
	var collect func(a av.AV, set map[string]bool)
	collect = func(a av.AV, set map[string]bool) {
		if a.K == "str" && len(a.Str) >= 3 {
			set[a.Str] = true
		}
		if a.To != nil {
			collect(*a.To, set)
		}
		for _, x := range a.List {
			collect(x, set)
		}
		for _, e := range a.Ents {
			collect(e.Key, set)
			collect(e.Val, set)
		}
		for _, f := range a.F {
			collect(f.V, set)
		}
	}
	sa, sb := map[string]bool{}, map[string]bool{}
	collect(av.Abstract(reflect.ValueOf(c.docs[di])), sa)
	collect(av.Abstract(reflect.ValueOf(c.docs[di+1])), sb)
	var m []string
	for k := range sa {
		if !sb[k] {
			m = append(m, k)
		}
	}
	for k := range sb {
		if !sa[k] {
			m = append(m, k)
		}
	}
	sort.Strings(m)
	c.marks[di] = m
	return m
}

func not(e *expr.Expr) *expr.Expr { return &expr.Expr{T: "not", E: e} }
func bin(op string, l, r *expr.Expr) *expr.Expr {
	return &expr.Expr{T: op, L: l, R: r}
}

var negOp = map[string]string{"==": "!=", "in": "notin", "empty": "notempty", "matches": "notmatches"}

// roots of selectors used in e that are not rebound by an inner quantifier
func freeRoots(e *expr.Expr, bound map[string]bool, acc map[string]bool) {
	switch e.T {
	case "match":
		if len(e.Sel.Path) > 0 && !bound[e.Sel.Path[0]] {
			acc[e.Sel.Path[0]] = true
		}
	case "not":
		freeRoots(e.E, bound, acc)
	case "and", "or":
		freeRoots(e.L, bound, acc)
		freeRoots(e.R, bound, acc)
	case "coll":
		if len(e.Sel.Path) > 0 && !bound[e.Sel.Path[0]] {
			acc[e.Sel.Path[0]] = true
		}
		b2 := map[string]bool{}
		for k := range bound {
			b2[k] = true
		}
		for _, n := range []string{e.N1, e.N2} {
			if n != "" {
				b2[n] = true
			}
		}
		freeRoots(e.E, b2, acc)
	}
}

// subst replaces the alias name at the root of selectors by path, respecting shadowing.
func subst(e *expr.Expr, name string, path []string) *expr.Expr {
	rs := func(s *expr.Sel) *expr.Sel {
		if len(s.Path) > 0 && s.Path[0] == name {
			p := append(append([]string{}, path...), s.Path[1:]...)
			return &expr.Sel{Ty: "bexpr", Path: p}
		}
		return s
	}
	c := *e
	switch e.T {
	case "match":
		c.Sel = rs(e.Sel)
	case "not":
		c.E = subst(e.E, name, path)
	case "and", "or":
		c.L = subst(e.L, name, path)
		c.R = subst(e.R, name, path)
	case "coll":
		c.Sel = rs(e.Sel)
		if e.N1 != name && e.N2 != name {
			c.E = subst(e.E, name, path)
		}
	}
	return &c
}

func (c *relCtx) c03(t *expr.Expr, ci, di int, info map[string]interface{}) {
	st := expr.Style{}
	switch t.T {
	case "and", "or":
		a, _ := c.obs(t.L, st, ci, di)
		b, _ := c.obs(t.R, st, ci, di)
		r, text := c.obs(t, st, ci, di)
		if a == "" || b == "" || r == "" {
			return
		}
		info["expr"] = text
		c.emit(group{Rel: t.T, A: a, B: b, R: r, Info: info})
		// De Morgan: not (A op B) against (not A) op' (not B)
		dual := "or"
		if t.T == "or" {
			dual = "and"
		}
		x, tx := c.obs(not(t), st, ci, di)
		y, ty := c.obs(bin(dual, not(t.L), not(t.R)), st, ci, di)
		if x != "" && y != "" {
			c.emit(group{Rel: "same", Obs: []string{x, y}, Info: map[string]interface{}{"law": "de morgan", "x": tx, "y": ty, "doc": info["doc"], "cfg": info["cfg"]}})
		}
	case "not":
		a, _ := c.obs(t.E, st, ci, di)
		r, text := c.obs(t, st, ci, di)
		if a == "" || r == "" {
			return
		}
		info["expr"] = text
		c.emit(group{Rel: "not", A: a, R: r, Info: info})
		// double negation is folded by the parser: spell it out as text
		if ev, o := run.Create("not "+text, c.cfgs[ci].Options()...); ev != nil {
			nn := run.Eval(ev, c.docs[di]).O
			c.emit(group{Rel: "same", Obs: []string{a, nn}, Info: map[string]interface{}{"law": "double negation", "x": "not " + text, "doc": info["doc"], "cfg": info["cfg"]}})
		} else {
			_ = o
		}
	}
}

func (c *relCtx) c04(t *expr.Expr, ci, di int, info map[string]interface{}) {
	if t.T != "match" {
		return
	}
	neg, ok := negOp[t.Op]
	if !ok {
		return
	}
	st := expr.Style{}
	n := *t
	n.Op = neg
	a, ta := c.obs(t, st, ci, di)
	r, tr := c.obs(&n, st, ci, di)
	if a == "" || r == "" {
		return
	}
	info["pos"], info["neg"] = ta, tr
	c.emit(group{Rel: "neg", A: a, R: r, Op: t.Op, Info: info})
	x, tx := c.obs(not(t), st, ci, di)
	if x != "" {
		c.emit(group{Rel: "same", Obs: []string{r, x}, Info: map[string]interface{}{"law": "negated operator = not(positive)", "x": tr, "y": tx, "doc": info["doc"], "cfg": info["cfg"]}})
	}
	if t.Op == "in" {
		for _, tt := range []*expr.Expr{t, &n} {
			u, tu := c.obs(tt, expr.Style{}, ci, di)
			v, tv := c.obs(tt, expr.Style{Cont: true}, ci, di)
			if u != "" && v != "" {
				c.emit(group{Rel: "same", Obs: []string{u, v}, Info: map[string]interface{}{"law": "contains = in flipped", "x": tu, "y": tv, "doc": info["doc"], "cfg": info["cfg"]}})
			}
		}
	}
}

func (c *relCtx) c06(t *expr.Expr, ci, di int, p partsJSON, info map[string]interface{}) {
	if t.T != "coll" || !p.Ok {
		return
	}
	if t.Mode == "both" && t.N1 == t.N2 {
		return
	}
	// which names are bound to the position (not expressible by substitution), which to the element
	keyNames, alias := map[string]bool{}, ""
	switch t.Mode {
	case "default":
		if p.Kind == "map" {
			keyNames[t.N1] = true
		} else {
			alias = t.N1
		}
	case "index":
		keyNames[t.N1] = true
	case "value":
		alias = t.N2
	case "both":
		keyNames[t.N1] = true
		alias = t.N2
	}
	free := map[string]bool{}
	freeRoots(t.E, map[string]bool{}, free)
	for k := range keyNames {
		if free[k] {
			c.skip["body uses the position binding"]++
			return
		}
	}
	if alias != "" && keyNames[t.Sel.Path[0]] {
		// `any recs as recs, v {...}`: inside the braces the name recs is the position, so the element alias recs.i itself cannot be
		// resolved there (the code reports an error); the unrolled bodies, outside the braces, can - no unrolling law for this shape
		c.skip["the position binding shadows the collection's own root"]++
		return
	}
	st := expr.Style{}
	r, text := c.obs(t, st, ci, di)
	if r == "" {
		return
	}
	var el []string
	for _, part := range p.Parts {
		body := t.E
		if alias != "" {
			body = subst(t.E, alias, append(append([]string{}, t.Sel.Path...), part))
		}
		o, _ := c.obs(body, st, ci, di)
		if o == "" {
			c.skip["element not expressible"]++
			return
		}
		el = append(el, o)
	}
	info["expr"] = text
	info["elements"] = p.Parts
	c.emit(group{Rel: t.Op, El: el, R: r, Info: info})
}

// unknownKey names the top-level key of the "absent" world that holds the value a configuration uses as
// unknown value.
var unknownKey = map[string]string{"unk-str": "u_str", "unk-empty": "u_empty", "unk-int": "u_int", "unk-nil": "u_nil", "unk-list": "u_list",
	"unk-map": "u_map", "unk-bool": "u_bool", "unk-f64": "u_f64", "json-unk": "u_str"}

// c05: what an absent key means. class is how the specification classifies the selector of the tree's root
// (no unknown value): ok, absent (key absent from a map), nf (absent but not from a map), err.
func (c *relCtx) c05(t *expr.Expr, ci, di int, class string, info map[string]interface{}) {
	if t.T != "match" && t.T != "coll" {
		return
	}
	cfg := c.cfgs[ci]
	st := expr.Style{}
	r, text := c.obs(t, st, ci, di)
	if r == "" {
		return
	}
	info["expr"], info["class"] = text, class
	hasUnknown := cfg.Unknown.K != "none"
	switch {
	case !hasUnknown && class == "absent" && t.T == "match":
		c.emit(group{Rel: "absent", Op: t.Op, R: r, Info: info})
	case !hasUnknown && class == "absent" && t.T == "coll":
		want := "F"
		if t.Op == "all" {
			want = "T"
		}
		c.emit(group{Rel: "same", Obs: []string{r, want}, Info: info})
	case !hasUnknown && class == "nf":
		c.emit(group{Rel: "same", Obs: []string{r, "E"}, Info: info})
	case class == "err" && t.T == "match":
		// a selector that fails for another reason than an absent key or field (index out of range, step into a scalar or
		// nil, hidden field) is an error with or without an unknown value
		info["law"] = "failures other than absence stay errors"
		c.emit(group{Rel: "same", Obs: []string{r, "E"}, Info: info})
	case hasUnknown && (class == "absent" || class == "nf"):
		// exactly as if the selector had resolved to the unknown value: name a key that holds it
		uk, ok := unknownKey[cfg.Name]
		if !ok {
			return
		}
		if t.T == "coll" && (cfg.Unknown.K == "list" || cfg.Unknown.K == "map") {
			// the elements of an unknown collection are reached through the alias path, which is absent again and
			// therefore reads as the whole unknown value: not comparable with iterating a present collection
			c.skip["quantifier over an unknown collection"]++
			return
		}
		u := *t
		u.Sel = &expr.Sel{Ty: "bexpr", Path: []string{uk}}
		x, tx := c.obs(&u, st, 0, di)
		if x != "" {
			info["as_if"] = tx
			c.emit(group{Rel: "same", Obs: []string{r, x}, Info: info})
		}
	case hasUnknown && class == "ok" && t.T == "match":
		// selectors that resolve are unaffected by the unknown value
		x, _ := c.obs(t, st, 0, di)
		if x != "" {
			info["law"] = "unknown value is a no-op when the selector resolves"
			c.emit(group{Rel: "same", Obs: []string{r, x}, Info: info})
		}
	}
}

func selectors(e *expr.Expr, f func(s *expr.Sel)) {
	switch e.T {
	case "match":
		f(e.Sel)
	case "not":
		selectors(e.E, f)
	case "and", "or":
		selectors(e.L, f)
		selectors(e.R, f)
	case "coll":
		f(e.Sel)
		selectors(e.E, f)
	}
}

// obsText evaluates source text as it stands; it also returns the tree the real parser built for it.
func (c *relCtx) obsText(text string, ci, di int) (string, *expr.Expr) {
	ast, perr := grammar.Parse("", []byte(text))
	if perr != nil {
		return "", nil
	}
	tree := expr.FromAST(ast.(grammar.Expression))
	if m, ok := c.cache["\x00"+text]; ok {
		if o, ok := m[ci]; ok {
			return o[di], tree
		}
	}
	ev, _ := run.Create(text, c.cfgs[ci].Options()...)
	if ev == nil {
		return "", nil
	}
	outs := make([]string, len(c.docs))
	for i, d := range c.docs {
		outs[i] = run.Eval(ev, d).O
		c.evals++
	}
	if c.cache["\x00"+text] == nil {
		c.cache["\x00"+text] = map[int][]string{}
	}
	c.cache["\x00"+text][ci] = outs
	return outs[di], tree
}

func (c *relCtx) c07(t *expr.Expr, ci, di int, info map[string]interface{}) {
	var obs []string
	var texts []string
	var trees []*expr.Expr
	for _, s := range []string{"auto", "bracket", "backtick", "pointer"} {
		text, err := expr.Render(t, expr.Style{Sel: s})
		if err != nil {
			continue
		}
		dup := false
		for _, x := range texts {
			if x == text {
				dup = true
			}
		}
		if dup {
			continue
		}
		o, tree := c.obsText(text, ci, di)
		if o == "" {
			c.skip["spelling rejected by the parser"]++
			continue
		}
		obs = append(obs, o)
		texts = append(texts, text)
		trees = append(trees, tree)
	}
	if len(obs) < 2 {
		c.skip["fewer than two spellings"]++
		return
	}
	info["spellings"] = texts
	c.emit(group{Rel: "same", Obs: obs, Info: info})
	if di == 0 {
		same := true
		for _, tr := range trees[1:] {
			if !expr.Same(trees[0], tr, false) {
				same = false
			}
		}
		c.emit(group{Rel: "flag", Ok: same, Info: map[string]interface{}{"law": "all spellings parse to the same paths", "spellings": texts, "cfg": info["cfg"]}})
		exact := true
		for _, tr := range trees {
			if !expr.Same(tr, t, false) {
				exact = false
			}
		}
		c.emit(group{Rel: "flag", Ok: exact, Info: map[string]interface{}{"law": "every spelling denotes exactly the path parts it spells (no trimming, no case folding)", "spellings": texts, "cfg": info["cfg"]}})
	}
}

func (c *relCtx) c14(t *expr.Expr, ci, di int, info map[string]interface{}) {
	text, err := expr.Render(t, expr.Style{})
	if err != nil {
		return
	}
	ev, _ := run.Create(text, c.cfgs[ci].Options()...)
	if ev == nil {
		return
	}
	var obs []string
	for i := 0; i < c.reps; i++ {
		obs = append(obs, run.Eval(ev, c.docs[di]).O)
		c.evals++
	}
	info["expr"] = text
	info["reps"] = c.reps
	c.emit(group{Rel: "same", Obs: compress(obs), Info: info})
}

// compress keeps a repetition vector short: the distinct outcomes in order of first appearance
func compress(obs []string) []string {
	var out []string
	seen := map[string]bool{}
	for _, o := range obs {
		if !seen[o] {
			seen[o] = true
			out = append(out, o)
		}
	}
	if len(out) == 1 {
		return []string{out[0], out[0]}
	}
	return out
}

func cmdRelate(args []string) error {
	fs := flag.NewFlagSet("relate", flag.ExitOnError)
	wf := fs.String("world", "world.json", "world file")
	cf := fs.String("cases", "cases.ndjson", "cases printed by TLC")
	gf := fs.String("groups", "groups.ndjson", "observation groups for spec/Rel.tla")
	of := fs.String("out", "relate.json", "summary")
	mode := fs.String("mode", "c03", "c03 c04 c06 c07 c08 c14")
	reps := fs.Int("reps", 64, "repetitions (c14)")
	fs.Parse(args)
	w, docs, cfgs, err := loadWorld(*wf)
	if err != nil {
		return err
	}
	f, err := os.Open(*cf)
	if err != nil {
		return err
	}
	defer f.Close()
	g, err := os.Create(*gf)
	if err != nil {
		return err
	}
	defer g.Close()
	ctx := &relCtx{w: w, docs: docs[0], cfgs: cfgs, out: bufio.NewWriter(g), skip: map[string]int{}, byRel: map[string]int{},
		cache: map[string]map[int][]string{}, errTxt: map[string]map[int][]string{}, marks: map[int][]string{}, reps: *reps}
	sc := bufio.NewScanner(f)
	sc.Buffer(make([]byte, 1<<20), 1<<28)
	trees := 0
	for sc.Scan() {
		var c struct {
			E *refTree      `json:"e"`
			P [][]partsJSON `json:"p"`
			K [][]string    `json:"k"`
		}
		if err := json.Unmarshal(sc.Bytes(), &c); err != nil {
			return fmt.Errorf("bad case line: %v", err)
		}
		tree, err := w.expand(c.E)
		if err != nil {
			return err
		}
		trees++
		for ci := range cfgs {
			for di := range ctx.docs {
				info := map[string]interface{}{"doc": w.Docs[di].Name, "cfg": cfgs[ci].Name}
				switch *mode {
				case "c03":
					ctx.c03(tree, ci, di, info)
				case "c04":
					ctx.c04(tree, ci, di, info)
				case "c06":
					if len(c.P) > ci && len(c.P[ci]) > di {
						ctx.c06(tree, ci, di, c.P[ci][di], info)
					}
				case "c07":
					ctx.c07(tree, ci, di, info)
				case "c05":
					if len(c.K) > ci && len(c.K[ci]) > di {
						ctx.c05(tree, ci, di, c.K[ci][di], info)
					}
				case "c14":
					ctx.c14(tree, ci, di, info)
				case "c08":
					// documents come in pairs (2i, 2i+1) that differ only in hidden content
					if di%2 == 0 && di+1 < len(ctx.docs) {
						a, text := ctx.obs(tree, expr.Style{}, ci, di)
						b, _ := ctx.obs(tree, expr.Style{}, ci, di+1)
						if a != "" && b != "" {
							info["expr"] = text
							info["doc2"] = w.Docs[di+1].Name
							ctx.emit(group{Rel: "same", Obs: []string{a, b}, Info: info})
							// unobservable also means: no error text shows content that only hidden fields hold
							if et := ctx.errTxt[text][ci]; et != nil && (et[di] != "" || et[di+1] != "") {
								leak := ""
								for _, m := range ctx.pairMarks(di) {
									if strings.Contains(text, m) {
										continue // the expression itself spells it (errors quote the literal)
									}
									if strings.Contains(et[di], m) || strings.Contains(et[di+1], m) {
										leak = m
									}
								}
								i2 := map[string]interface{}{"law": "an error text never shows content that only hidden fields hold", "expr": text, "doc": info["doc"], "doc2": info["doc2"], "cfg": info["cfg"]}
								if leak != "" {
									i2["shown"], i2["error"], i2["error2"] = leak, trunc(et[di]), trunc(et[di+1])
								}
								ctx.emit(group{Rel: "flag", Ok: leak == "", Info: i2})
							}
						}
					}
				default:
					return fmt.Errorf("unknown mode %q", *mode)
				}
			}
		}
	}
	if err := sc.Err(); err != nil {
		return err
	}
	ctx.out.Flush()
	sum := map[string]interface{}{"trees": trees, "groups": ctx.n, "byrel": ctx.byRel, "skipped": ctx.skip, "evals": ctx.evals, "samples": ctx.sample, "skiptext": ctx.skipText}
	b, _ := json.MarshalIndent(sum, "", " ")
	return os.WriteFile(*of, b, 0o644)
}
