package main

import (
	"encoding/json"
	"flag"
	"os"

	bexpr "github.com/hashicorp/go-bexpr"
	"verif/harness/zoo"
)

func init() { cmds["repeat-filter"] = cmdRepeatFilter }

// cmdRepeatFilter repeats Filter.Execute on map containers and reports cases whose result varies.
func cmdRepeatFilter(args []string) error {
	fs := flag.NewFlagSet("repeat-filter", flag.ExitOnError)
	reps := fs.Int("reps", 64, "repetitions")
	fs.Parse(args)
	exprs := []string{"X == 1", "Y != a", "X == abc", "M.k == 1", "any Tags as t { t == t }", "V == 2", "V != 2", `X == 1 or Y == "c"`}
	type un struct {
		Filter    string   `json:"filter"`
		Container string   `json:"container"`
		Seen      []string `json:"outcomes_seen"`
	}
	var unstable []un
	cases, runs := 0, 0
	conts := zoo.Conts()
	m := zoo.Maps()
	for _, k := range []string{"m2", "m3", "m4", "m5", "m8", "ok3", "mix"} {
		conts = append(conts, zoo.Doc{Name: "maps." + k, V: m[k]})
	}
	for _, c := range conts {
		for _, src := range exprs {
			fl, err := bexpr.CreateFilter(src)
			if err != nil {
				return err
			}
			seen := map[string]bool{}
			var order []string
			for i := 0; i < *reps; i++ {
				_, d := execute(fl, c.V)
				runs++
				if !seen[d] {
					seen[d] = true
					order = append(order, trunc(d))
				}
			}
			cases++
			if len(order) > 1 {
				unstable = append(unstable, un{Filter: src, Container: c.Name, Seen: order})
			}
		}
	}
	if unstable == nil {
		unstable = []un{}
	}
	return json.NewEncoder(os.Stdout).Encode(map[string]interface{}{"cases": cases, "runs": runs, "unstable": unstable})
}
