package main

import (
	"encoding/json"
	"flag"
	"os"
	"strings"
	"time"

	bexpr "github.com/hashicorp/go-bexpr"
)

func init() { cmds["nest"] = cmdNest }

// cmdNest feeds pathologically nested input to CreateEvaluator under budgets: it must be rejected with the
// max-expressions error within the budget (at most n+1 steps), not consume unbounded CPU.
func cmdNest(args []string) error {
	fs := flag.NewFlagSet("nest", flag.ExitOnError)
	fs.Parse(args)
	installStepHook()
	type row struct {
		Depth   int     `json:"depth"`
		Shape   string  `json:"shape"`
		Budget  uint64  `json:"budget"`
		Outcome string  `json:"outcome"`
		Steps   uint64  `json:"steps"`
		Secs    float64 `json:"secs"`
		Ok      bool    `json:"ok"`
	}
	var rows []row
	for _, depth := range []int{16, 24, 32, 64} {
		for shape, src := range map[string]string{
			"balanced":  strings.Repeat("(", depth) + "a == 1" + strings.Repeat(")", depth),
			"unmatched": strings.Repeat("(", depth) + "a == 1",
			"spaced":    strings.Repeat("( ", depth) + "not a == 1 and b in c" + strings.Repeat(" )", depth),
		} {
			for _, n := range []uint64{1, 1000, 1 << 16, 1 << 22} {
				stepCount = 0
				t := time.Now()
				var outcome string
				func() {
					defer func() {
						if r := recover(); r != nil {
							outcome = "PANIC"
						}
					}()
					ev, err := bexpr.CreateEvaluator(src, bexpr.WithMaxExpressions(n))
					switch {
					case err != nil && ev == nil && strings.Contains(err.Error(), "max number of expresssions parsed"):
						outcome = "budget"
					case err != nil && ev == nil:
						outcome = "error"
					case err == nil && ev != nil:
						outcome = "accepted"
					default:
						outcome = "bad-shape"
					}
				}()
				secs := time.Since(t).Seconds()
				// unlimited, these inputs need far more than 2^22 steps: within the budget they must fail with the budget error
				ok := outcome == "budget" && (stepCount == 0 || stepCount <= n+1) && secs < 20
				rows = append(rows, row{Depth: depth, Shape: shape, Budget: n, Outcome: outcome, Steps: stepCount, Secs: secs, Ok: ok})
			}
		}
	}
	return json.NewEncoder(os.Stdout).Encode(rows)
}
