package main

import (
	"encoding/json"
	"flag"
	"fmt"
	"os"
	"strings"
	"time"

	bexpr "github.com/hashicorp/go-bexpr"
)

func init() { cmds["nest"] = cmdNest }

// cmdNest feeds pathologically nested input to CreateEvaluator under budgets: it must be rejected with the
// max-expressions error within the budget (at most n+1 steps), not consume unbounded CPU.
func cmdNest(args []string) error {
	fs := flag.NewFlagSet("nest", flag.ExitOnError)
	fs.Parse(args)
	installStepHook()
	type row struct {
		Depth   int     `json:"depth"`
		Shape   string  `json:"shape"`
		Budget  uint64  `json:"budget"`
		Outcome string  `json:"outcome"`
		Steps   uint64  `json:"steps"`
		Secs    float64 `json:"secs"`
		Ok      bool    `json:"ok"`
	}
	var rows []row
	emit := func() error { return json.NewEncoder(os.Stdout).Encode(rows) }
	// the option must reach the parser: the smallest budget CreateEvaluator accepts is the number of steps the parse takes
	for _, src := range []string{"a == 1", "foo.bar != `x` and not (b in c)", "all xs as v { v.k == 1 }", "(a == 1)", `"/a/b" matches "^x"`} {
		n := realParse([]byte(src), 0).Cnt
		mb := minBudget(src)
		rows = append(rows, row{Shape: "smallest accepted budget of " + src, Budget: mb, Steps: n, Outcome: "threshold", Ok: n == 0 || mb == n})
	}
	// no budget (and budget 0) means unlimited: an input that needs millions of steps still parses, like under a budget above its step count
	{
		src := strings.Repeat("(", 7) + "a == 1" + strings.Repeat(")", 7)
		n := realParse([]byte(src), 0).Cnt
		for _, o := range [][]bexpr.Option{nil, {bexpr.WithMaxExpressions(0)}, {bexpr.WithMaxExpressions(1 << 26)}, {bexpr.WithMaxExpressions(0), bexpr.WithTagName("json")}} {
			ev, err := bexpr.CreateEvaluator(src, o...)
			rows = append(rows, row{Depth: 7, Shape: fmt.Sprintf("unlimited parse of 7 nested parentheses (%d options)", len(o)), Steps: n, Outcome: fmt.Sprint(err), Ok: ev != nil && err == nil})
		}
	}
	for _, depth := range []int{16, 24, 32, 64} {
		for _, shape := range []string{"balanced", "unmatched", "spaced"} {
			src := map[string]string{
				"balanced":  strings.Repeat("(", depth) + "a == 1" + strings.Repeat(")", depth),
				"unmatched": strings.Repeat("(", depth) + "a == 1",
				"spaced":    strings.Repeat("( ", depth) + "not a == 1 and b in c" + strings.Repeat(" )", depth),
			}[shape]
			for _, n := range []uint64{1, 1000, 1 << 16, 1 << 22} {
				stepCount = 0
				t := time.Now()
				done := make(chan string, 1)
				go func() {
					outcome := ""
					defer func() {
						if r := recover(); r != nil {
							outcome = "PANIC"
						}
						done <- outcome
					}()
					ev, err := bexpr.CreateEvaluator(src, bexpr.WithMaxExpressions(n))
					switch {
					case err != nil && ev == nil && strings.Contains(err.Error(), "max number of expresssions parsed"):
						outcome = "budget"
					case err != nil && ev == nil:
						outcome = "error"
					case err == nil && ev != nil:
						outcome = "accepted"
					default:
						outcome = "bad-shape"
					}
				}()
				var outcome string
				select {
				case outcome = <-done:
				case <-time.After(30 * time.Second):
					// unlimited, these inputs need astronomically many steps: not returning means the budget is not applied
					rows = append(rows, row{Depth: depth, Shape: shape, Budget: n, Outcome: "did not return within 30 s", Secs: 30, Ok: false})
					return emit()
				}
				secs := time.Since(t).Seconds()
				ok := outcome == "budget" && (stepCount == 0 || stepCount <= n+1)
				rows = append(rows, row{Depth: depth, Shape: shape, Budget: n, Outcome: outcome, Steps: stepCount, Secs: secs, Ok: ok})
			}
		}
	}
	return emit()
}
