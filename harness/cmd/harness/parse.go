package main

import (
	"bufio"
	"bytes"
	"encoding/json"
	"flag"
	"fmt"
	"os"
	"strings"
	"unicode"
	"unicode/utf8"

	bexpr "github.com/hashicorp/go-bexpr"
	"github.com/hashicorp/go-bexpr/grammar"
	"verif/harness/expr"
)

func init() { cmds["parse"] = cmdParse }

var symBytes = map[string]string{"<0>": "\x00", "<L>": "é", "<N>": "٣", "<S>": "☃", "<B>": "\xff"}

// other representatives of the symbol classes: the verdict must not depend on which member of a class is used
var symAlt = func() []map[string]string {
	alts := []map[string]string{
		{"<L>": "ǅ", "<N>": "½", "<S>": "\u00a0"},
		{"<L>": "ª", "<N>": "Ⅷ", "<S>": "\u2028"},
		{"<L>": "日", "<N>": "٣", "<S>": "\u3000"},
		{"<L>": "だ", "<N>": "²", "<S>": "™"},
		// code points with a special role somewhere: replacement character, byte order mark, line / paragraph separators, zero width
		// and soft hyphen, private use, the last code point, a combining mark
		{"<S>": "\ufffd"}, {"<S>": "\ufeff"}, {"<S>": "\u0085"}, {"<S>": "\u2029"}, {"<S>": "\u200b"}, {"<S>": "\u00ad"}, {"<S>": "\ue000"}, {"<S>": "\U0010ffff"}, {"<S>": "\u0301"},
	}
	// letters (and symbols) whose code point has the low byte of a character the grammar gives a meaning to
	for _, r := range "ТѠШЩЮЯћѝѻѽЬнСѾџРЉЊЍ" {
		alts = append(alts, map[string]string{"<L>": string(r), "<S>": string(rune(0x2000 + int(r)&0xff))})
	}
	return alts
}()

func bytesAlt(syms []string, alt map[string]string) []byte {
	var b bytes.Buffer
	for _, s := range syms {
		if x, ok := alt[s]; ok {
			b.WriteString(x)
		} else if x, ok := symBytes[s]; ok {
			b.WriteString(x)
		} else {
			b.WriteString(s)
		}
	}
	return b.Bytes()
}

// bytesOf turns model symbols into the bytes handed to the parser.
func bytesOf(syms []string) []byte {
	var b bytes.Buffer
	for _, s := range syms {
		if x, ok := symBytes[s]; ok {
			b.WriteString(x)
		} else {
			b.WriteString(s)
		}
	}
	return b.Bytes()
}

// symString maps a string of the real syntax tree onto the model alphabet.
func symString(s string) string {
	var b strings.Builder
	for len(s) > 0 {
		r, n := utf8.DecodeRuneInString(s)
		switch {
		case r == utf8.RuneError && n == 1:
			b.WriteString("<X>")
		case r == 0:
			b.WriteString("<0>")
		case r == '\t' || r == '\n' || r == '\r':
			b.WriteRune(r)
		case r < 32 || r == 127:
			b.WriteString("<X>")
		case r < 127:
			b.WriteRune(r)
		case unicode.IsLetter(r):
			b.WriteString("<L>")
		case unicode.IsNumber(r):
			b.WriteString("<N>")
		default:
			b.WriteString("<S>")
		}
		s = s[n:]
	}
	return b.String()
}

func symTree(e *expr.Expr) *expr.Expr {
	if e == nil {
		return nil
	}
	c := *e
	c.Val = symString(e.Val)
	c.N1, c.N2 = symString(e.N1), symString(e.N2)
	if e.Sel != nil {
		p := make([]string, len(e.Sel.Path))
		for i, x := range e.Sel.Path {
			p[i] = symString(x)
		}
		c.Sel = &expr.Sel{Ty: e.Sel.Ty, Path: p}
	}
	c.E, c.L, c.R = symTree(e.E), symTree(e.L), symTree(e.R)
	return &c
}

func hasClassSym(syms []string) bool {
	for _, s := range syms {
		if s == "<L>" || s == "<N>" || s == "<S>" {
			return true
		}
	}
	return false
}

var stepCount uint64

// stepHash is the running hash of the step trace of the current parse; symAt maps byte offsets of the current input to
// 1-based symbol positions (the positions of the specification).
var stepHash uint64
var symAt []int

// symPositions builds symAt for an input given as model symbols.
func symPositions(syms []string) []int {
	var at []int
	for i, s := range syms {
		n := len(s)
		if x, ok := symBytes[s]; ok {
			n = len(x)
		}
		for j := 0; j < n; j++ {
			at = append(at, i+1)
		}
	}
	return append(at, len(syms)+1)
}

type parseObs struct {
	Acc   string     `json:"acc"` // yes no tree+error budget PANIC
	Ast   *expr.Expr `json:"ast,omitempty"`
	Cnt   uint64     `json:"cnt"`
	Hash  uint64     `json:"h"`
	Panic string     `json:"panic,omitempty"`
	Err   string     `json:"err,omitempty"`
}

// realParse runs grammar.Parse with the given budget (0 = unlimited) and describes the result.
func realParse(src []byte, max uint64) (o parseObs) {
	stepCount, stepHash = 0, 0
	defer func() {
		o.Cnt, o.Hash = stepCount, stepHash
		if r := recover(); r != nil {
			o = parseObs{Acc: "PANIC", Panic: fmt.Sprint(r), Cnt: stepCount, Hash: stepHash}
		}
	}()
	var opts []grammar.Option
	if max != 0 {
		opts = append(opts, grammar.MaxExpressions(max))
	}
	v, err := grammar.Parse("", src, opts...)
	switch {
	case err == nil && v == nil:
		return parseObs{Acc: "neither"}
	case err == nil:
		x, ok := v.(grammar.Expression)
		if !ok {
			return parseObs{Acc: "not-an-expression"}
		}
		return parseObs{Acc: "yes", Ast: symTree(expr.FromAST(x))}
	case strings.Contains(err.Error(), "max number of expresssions parsed"):
		return parseObs{Acc: "budget", Err: err.Error()}
	case v != nil:
		return parseObs{Acc: "tree+error", Err: err.Error()}
	}
	return parseObs{Acc: "no", Err: err.Error()}
}

// createShape checks the result shape of CreateEvaluator / CreateFilter on the same bytes and that what they return is usable.
func createShape(src []byte, parseAcc string) string {
	var problems []string
	func() {
		defer func() {
			if r := recover(); r != nil {
				problems = append(problems, fmt.Sprint("CreateEvaluator / Evaluate / dump panics: ", r))
			}
		}()
		ev, err := bexpr.CreateEvaluator(string(src))
		switch {
		case ev != nil && err != nil:
			problems = append(problems, "CreateEvaluator returns both an evaluator and an error")
		case ev == nil && err == nil:
			problems = append(problems, "CreateEvaluator returns neither an evaluator nor an error")
		}
		if (ev != nil) != (parseAcc == "yes") {
			problems = append(problems, fmt.Sprintf("CreateEvaluator accepts=%v but grammar.Parse says %s", ev != nil, parseAcc))
		}
		if ev != nil {
			ev.Evaluate(map[string]interface{}{"a": 1, "foo": "x", "x": []int{1}})
			ev.Evaluate(map[string]interface{}{"a": "str", "foo": []byte("b"), "x": []interface{}{"s", nil, 1}, "m": map[string]interface{}{"k": "v"}})
			ev.Evaluate(nil)
			if ev.Expression() != string(src) {
				problems = append(problems, "Expression() differs from the source")
			}
		}
		if parseAcc == "yes" {
			v, _ := grammar.Parse("", src)
			v.(grammar.Expression).ExpressionDump(&bytes.Buffer{}, "  ", 1)
		}
	}()
	func() {
		defer func() {
			if r := recover(); r != nil {
				problems = append(problems, fmt.Sprint("CreateFilter / Execute panics: ", r))
			}
		}()
		fl, err := bexpr.CreateFilter(string(src))
		switch {
		case len(src) == 0:
			if fl != nil || err != nil {
				problems = append(problems, "CreateFilter(\"\") is not the nil filter")
			}
		case fl != nil && err != nil:
			problems = append(problems, "CreateFilter returns both a filter and an error")
		case fl == nil && err == nil:
			problems = append(problems, "CreateFilter returns neither a filter nor an error")
		case (fl != nil) != (parseAcc == "yes"):
			problems = append(problems, fmt.Sprintf("CreateFilter accepts=%v but grammar.Parse says %s", fl != nil, parseAcc))
		}
		if fl != nil {
			fl.Execute([]map[string]interface{}{{"a": 1}})
		}
	}()
	return strings.Join(problems, "; ")
}

func cmdParse(args []string) error {
	fs := flag.NewFlagSet("parse", flag.ExitOnError)
	cf := fs.String("cases", "cases.ndjson", "cases printed by TLC (PegCases)")
	of := fs.String("out", "parse.json", "result")
	shapes := fs.Bool("shapes", true, "also check CreateEvaluator / CreateFilter result shapes (C10)")
	ef := fs.String("expect", "", "JSON list: the tree each prefabricated input was rendered from (C16)")
	fs.Parse(args)
	var expect []*expr.Expr
	if *ef != "" {
		eb, err := os.ReadFile(*ef)
		if err != nil {
			return err
		}
		if err := json.Unmarshal(eb, &expect); err != nil {
			return err
		}
	}
	installStepHook()
	f, err := os.Open(*cf)
	if err != nil {
		return err
	}
	defer f.Close()
	type mm struct {
		Input string      `json:"input"`
		Syms  []string    `json:"syms"`
		What  string      `json:"what"`
		Spec  interface{} `json:"spec"`
		Impl  interface{} `json:"impl"`
	}
	var lang, steps, shape, budget, round, specround []mm
	by := map[string]int{}
	n, unm, nb, sweeps, traces := 0, 0, 0, 0, 0
	var samples []interface{}
	sc := bufio.NewScanner(f)
	sc.Buffer(make([]byte, 1<<20), 1<<28)
	for sc.Scan() {
		var c struct {
			Inp []string `json:"inp"`
			Obs struct {
				Acc string     `json:"acc"`
				Ast *expr.Expr `json:"ast"`
			} `json:"obs"`
			Cnt  uint64          `json:"cnt"`
			H    *uint64         `json:"h"`
			Tr   bool            `json:"tr"`
			Bud  json.RawMessage `json:"bud"`
			Seed int             `json:"seed"`
			Rt   bool            `json:"rt"`
			Tree *expr.Expr      `json:"tree"`
		}
		if err := json.Unmarshal(sc.Bytes(), &c); err != nil {
			return fmt.Errorf("bad case: %v: %s", err, trunc(sc.Text()))
		}
		n++
		src := bytesOf(c.Inp)
		symAt = symPositions(c.Inp)
		got := realParse(src, 0)
		by[got.Acc]++
		add := func(l *[]mm, what string, spec, impl interface{}) {
			if len(*l) < 60 {
				*l = append(*l, mm{Input: string(src), Syms: c.Inp, What: what, Spec: spec, Impl: impl})
			}
		}
		if got.Acc == "PANIC" || got.Acc == "neither" || got.Acc == "not-an-expression" {
			add(&shape, "grammar.Parse result shape", "value xor error, no panic", got)
		}
		if *shapes {
			if p := createShape(src, got.Acc); p != "" {
				add(&shape, p, "", "")
			}
		}
		if c.Obs.Acc == "?" {
			unm++
		} else {
			if got.Acc != c.Obs.Acc {
				add(&lang, "accept / reject", c.Obs.Acc, got.Acc+" "+got.Err)
			} else if got.Acc == "yes" && !expr.Same(got.Ast, c.Obs.Ast, true) {
				add(&lang, "syntax tree", c.Obs.Ast, got.Ast)
			}
			if got.Cnt != 0 && got.Cnt != c.Cnt {
				add(&steps, "parser steps", c.Cnt, got.Cnt)
			} else if got.Cnt != 0 && c.H != nil && c.Tr {
				// same number of steps: the step sequences (kind of expression and position of every step) must be the same too
				traces++
				if got.Hash != *c.H {
					add(&steps, "step trace (kind and position of every parseExpr call)", *c.H, got.Hash)
				}
			}
		}
		if c.Tree != nil || (c.Seed > 0 && c.Seed <= len(expect)) {
			want := c.Tree
			if want == nil {
				want = expect[c.Seed-1]
			}
			if !c.Rt {
				add(&specround, "the specification does not read this rendering back as the tree it was rendered from", want, c.Obs)
			}
			if got.Acc != "yes" || !expr.Same(got.Ast, want, true) {
				add(&round, "print-then-parse round trip", want, got)
			}
		}
		// the same input with other members of the symbol classes (another letter, number, non-ASCII blank ...)
		if c.Obs.Acc != "?" && hasClassSym(c.Inp) {
			for _, alt := range symAlt {
				g2 := realParse(bytesAlt(c.Inp, alt), 0)
				if g2.Acc != c.Obs.Acc {
					add(&lang, "accept / reject with another member of a symbol class: "+string(bytesAlt(c.Inp, alt)), c.Obs.Acc, g2.Acc+" "+g2.Err)
				} else if g2.Acc == "yes" && !expr.Same(g2.Ast, c.Obs.Ast, true) {
					add(&lang, "syntax tree with another member of a symbol class: "+string(bytesAlt(c.Inp, alt)), c.Obs.Ast, g2.Ast)
				}
			}
		}
		if len(samples) < 6 && n%211 == 1 {
			samples = append(samples, map[string]interface{}{"input": string(src), "spec": c.Obs.Acc, "impl": got.Acc, "steps_spec": c.Cnt, "steps_impl": got.Cnt})
		}
		// budgets (C11): real against real; N is what the real unlimited parse took
		if len(c.Bud) > 2 && c.Bud[0] == '{' && got.Cnt > 0 {
			N := got.Cnt
			for _, b := range []uint64{1 << 22, 2 * N, N + 1, N, N - 1, N / 2, 2, 1} {
				if b == 0 {
					continue
				}
				nb++
				gb := realParse(src, b)
				want := "same as unlimited"
				ok := true
				if b >= N {
					ok = gb.Acc == got.Acc && (gb.Acc != "yes" || expr.Same(gb.Ast, got.Ast, true)) && (gb.Acc == "yes" || gb.Err == got.Err)
				} else {
					want = "budget error"
					ok = gb.Acc == "budget"
				}
				if gb.Cnt > b+1 {
					ok = false
					want += fmt.Sprintf(", at most %d steps", b+1)
				}
				if !ok {
					add(&budget, fmt.Sprintf("budget n=%d, N=%d", b, N), want, gb)
				}
			}
			// for cheap inputs every budget from 1 to N + 2: exact threshold, monotone, no budget below N succeeds
			if N <= 1600 && sweeps < 12 {
				sweeps++
				for b := uint64(1); b <= N+2; b++ {
					nb++
					gb := realParse(src, b)
					if (b < N && gb.Acc != "budget") || (b >= N && gb.Acc != got.Acc) {
						add(&budget, fmt.Sprintf("budget sweep n=%d, N=%d", b, N), map[bool]string{true: "budget error", false: "same as unlimited"}[b < N], gb)
						break
					}
				}
			}
			// a budget belongs to one parse: the next unlimited parse is what it was before
			again := realParse(src, 0)
			if again.Acc != got.Acc || again.Cnt != got.Cnt {
				add(&budget, "unlimited parse after budgeted parses", got, again)
			}
		}
	}
	if err := sc.Err(); err != nil {
		return err
	}
	out, _ := json.MarshalIndent(map[string]interface{}{"inputs": n, "unmodelled": unm, "byacc": by, "language": lang, "steps": steps, "tracescompared": traces, "shape": shape,
		"budget": budget, "budgetruns": nb, "samples": samples, "round": round, "specround": specround}, "", " ")
	return os.WriteFile(*of, out, 0o644)
}
