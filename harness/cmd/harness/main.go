// Command harness is the Go side of the conformance loop: it emits the data
// universes, replays TLC-generated cases on the real go-bexpr code and records
// observations for TLC to validate.
package main

import (
	"fmt"
	"os"
)

var cmds = map[string]func(args []string) error{}

func main() {
	if len(os.Args) < 2 {
		fmt.Fprintln(os.Stderr, "usage: harness <cmd> [flags]")
		os.Exit(2)
	}
	f, ok := cmds[os.Args[1]]
	if !ok {
		fmt.Fprintf(os.Stderr, "unknown command %q\n", os.Args[1])
		os.Exit(2)
	}
	if err := f(os.Args[2:]); err != nil {
		fmt.Fprintln(os.Stderr, "harness:", err)
		os.Exit(2)
	}
}
