package main

import (
	"bufio"
	"encoding/json"
	"flag"
	"fmt"
	"os"
	"reflect"
	"strings"

	bexpr "github.com/hashicorp/go-bexpr"
	"github.com/hashicorp/go-bexpr/grammar"
	"verif/harness/av"
	"verif/harness/expr"
	"verif/harness/run"
	"verif/harness/zoo"
)

func init() {
	cmds["data"] = cmdData
	cmds["replay"] = cmdReplay
}

type docJSON struct {
	Name string `json:"name"`
	AV   av.AV  `json:"av"`
}

func cmdData(args []string) error {
	fs := flag.NewFlagSet("data", flag.ExitOnError)
	worlds := fs.String("worlds", "scalars", "comma separated world names")
	fs.Parse(args)
	out := struct {
		Docs []docJSON `json:"docs"`
		Cfgs []run.Cfg `json:"cfgs"`
	}{Cfgs: run.Cfgs()}
	for _, w := range strings.Split(*worlds, ",") {
		docs := zoo.World(w)
		if docs == nil {
			return fmt.Errorf("unknown world %q", w)
		}
		for _, d := range docs {
			out.Docs = append(out.Docs, docJSON{Name: d.Name, AV: av.Abstract(reflect.ValueOf(d.V))})
		}
	}
	return json.NewEncoder(os.Stdout).Encode(out)
}

// refTree is a tree as TLC prints it: atoms and quantifier shells by index.
type refTree struct {
	T string   `json:"t"`
	I int      `json:"i"`
	J int      `json:"j"`
	E *refTree `json:"e"`
	L *refTree `json:"l"`
	R *refTree `json:"r"`
}

type collShell struct {
	Op   string    `json:"op"`
	Sel  *expr.Sel `json:"sel"`
	Mode string    `json:"mode"`
	N1   string    `json:"n1"`
	N2   string    `json:"n2"`
}

type docRaw struct {
	Name string          `json:"name"`
	AV   json.RawMessage `json:"av"`
}

type world struct {
	Worlds []string    `json:"worlds"`
	Docs   []docRaw    `json:"docs"`
	CfgSel []int       `json:"cfgsel"` // indexes into run.Cfgs(), in the order of the world's cfgs
	Atoms  []expr.Expr `json:"atoms"`
	Colls  []collShell `json:"colls"`
}

func (w *world) expand(r *refTree) (*expr.Expr, error) {
	switch r.T {
	case "atom":
		if r.I < 1 || r.I > len(w.Atoms) {
			return nil, fmt.Errorf("atom index %d out of range", r.I)
		}
		a := w.Atoms[r.I-1]
		return &a, nil
	case "not":
		e, err := w.expand(r.E)
		if err != nil {
			return nil, err
		}
		return &expr.Expr{T: "not", E: e}, nil
	case "and", "or":
		l, err := w.expand(r.L)
		if err != nil {
			return nil, err
		}
		rr, err := w.expand(r.R)
		if err != nil {
			return nil, err
		}
		return &expr.Expr{T: r.T, L: l, R: rr}, nil
	case "coll":
		if r.J < 1 || r.J > len(w.Colls) {
			return nil, fmt.Errorf("coll index %d out of range", r.J)
		}
		c := w.Colls[r.J-1]
		e, err := w.expand(r.E)
		if err != nil {
			return nil, err
		}
		return &expr.Expr{T: "coll", Op: c.Op, Sel: c.Sel, Mode: c.Mode, N1: c.N1, N2: c.N2, E: e}, nil
	}
	return nil, fmt.Errorf("unknown ref node %q", r.T)
}

type mismatch struct {
	Text string      `json:"text"`
	Tree *expr.Expr  `json:"tree"`
	Doc  string      `json:"doc"`
	DocI int         `json:"doci"`
	Cfg  string      `json:"cfg"`
	Want string      `json:"want"`
	Got  run.Outcome `json:"got"`
}

type replayOut struct {
	Cases      int            `json:"cases"`      // trees
	Evals      int            `json:"evals"`      // tree x cfg x doc evaluations
	Unmodelled int            `json:"unmodelled"` // evaluations for which the specification states no expectation
	Skipped    int            `json:"skipped"`    // trees that could not be rendered or did not parse back to themselves
	SkipWhy    map[string]int `json:"skipwhy"`
	SkipText   []string       `json:"skiptext"`
	ByOutcome  map[string]int `json:"byoutcome"`
	Mismatches []mismatch     `json:"mismatches"`
	Never      []mismatch     `json:"never"` // panics and (true, err) results: forbidden whatever the expression means
	Samples    []interface{}  `json:"samples"`
}

func loadWorld(path string) (*world, [][]interface{}, []run.Cfg, error) {
	b, err := os.ReadFile(path)
	if err != nil {
		return nil, nil, nil, err
	}
	var w world
	if err := json.Unmarshal(b, &w); err != nil {
		return nil, nil, nil, err
	}
	// rebuild the documents natively, in the same order, and make sure they are the ones TLC saw
	var fresh []func() interface{}
	for _, wn := range w.Worlds {
		wn := wn
		for i := range zoo.World(wn) {
			i := i
			fresh = append(fresh, func() interface{} { return zoo.World(wn)[i].V })
		}
	}
	if len(fresh) != len(w.Docs) {
		return nil, nil, nil, fmt.Errorf("world has %d documents, zoo builds %d", len(w.Docs), len(fresh))
	}
	docs := make([][]interface{}, 1)
	for i, f := range fresh {
		v := f()
		got, _ := json.Marshal(av.Abstract(reflect.ValueOf(v)))
		if !sameJSON(got, w.Docs[i].AV) {
			return nil, nil, nil, fmt.Errorf("document %d (%s) differs from the one in the world file", i, w.Docs[i].Name)
		}
		docs[0] = append(docs[0], v)
	}
	all := run.Cfgs()
	var cfgs []run.Cfg
	for _, i := range w.CfgSel {
		cfgs = append(cfgs, all[i])
	}
	return &w, docs, cfgs, nil
}

func sameJSON(a, b []byte) bool {
	var x, y interface{}
	if json.Unmarshal(a, &x) != nil || json.Unmarshal(b, &y) != nil {
		return false
	}
	return reflect.DeepEqual(x, y)
}

func cmdReplay(args []string) error {
	fs := flag.NewFlagSet("replay", flag.ExitOnError)
	wf := fs.String("world", "world.json", "world file")
	cf := fs.String("cases", "cases.ndjson", "cases printed by TLC, one JSON object per line")
	of := fs.String("out", "replay.json", "result file")
	lits := fs.String("lits", "auto", "comma separated literal styles to render every tree in (auto, raw, bare, dq)")
	sels := fs.String("sels", "auto", "comma separated selector spellings to render every tree in (auto, bracket, backtick, pointer)")
	fs.Parse(args)
	w, docs, cfgs, err := loadWorld(*wf)
	if err != nil {
		return err
	}
	f, err := os.Open(*cf)
	if err != nil {
		return err
	}
	defer f.Close()
	out := replayOut{SkipWhy: map[string]int{}, ByOutcome: map[string]int{}}
	sc := bufio.NewScanner(f)
	sc.Buffer(make([]byte, 1<<20), 1<<28)
	for sc.Scan() {
		var c struct {
			E *refTree   `json:"e"`
			X [][]string `json:"x"`
		}
		if err := json.Unmarshal(sc.Bytes(), &c); err != nil {
			return fmt.Errorf("bad case line: %v", err)
		}
		out.Cases++
		tree, err := w.expand(c.E)
		if err != nil {
			return err
		}
		seen := map[string]bool{}
		var stys []expr.Style
		for _, ls := range strings.Split(*lits, ",") {
			for _, ss := range strings.Split(*sels, ",") {
				stys = append(stys, expr.Style{Lit: ls, Sel: ss})
			}
		}
		for si, sty := range stys {
			text, err := expr.Render(tree, sty)
			if err != nil {
				if si == 0 {
					out.Skipped++
					out.SkipWhy["render: "+err.Error()]++
				}
				continue
			}
			if seen[text] {
				continue
			}
			seen[text] = true
			// the text must denote the tree it was rendered from (C15/C16 judge the parser; here a
			// disagreement only means the case cannot be used)
			ast, perr := grammar.Parse("", []byte(text))
			if perr != nil {
				out.Skipped++
				out.SkipWhy["parse error"]++
				if len(out.SkipText) < 10 {
					out.SkipText = append(out.SkipText, text)
				}
				continue
			}
			if !expr.Same(expr.FromAST(ast.(grammar.Expression)), tree, false) {
				// the real parser reads the text as another tree (never on the unchanged tree; the renderings are validated
				// against the reference grammar by C16): the case stays in - what Evaluate returns for this text is still
				// compared with what the text denotes
				out.SkipWhy["parses to a different tree (evaluated anyway)"]++
			}
			for ci, cfg := range cfgs {
				ev, o := run.Create(text, cfg.Options()...)
				if ev == nil {
					out.Skipped++
					out.SkipWhy["create: "+o.O]++
					continue
				}
				for di, d := range docs[0] {
					got := run.Eval(ev, d)
					out.Evals++
					out.ByOutcome[got.O]++
					want := c.X[ci][di]
					if got.O != "T" && got.O != "F" && got.O != "E" && len(out.Never) < 200 {
						out.Never = append(out.Never, mismatch{Text: text, Tree: tree, Doc: w.Docs[di].Name, DocI: di, Cfg: cfg.Name, Want: want, Got: got})
					}
					if want == "?" {
						out.Unmodelled++
					} else if got.O != want {
						if len(out.Mismatches) < 200 {
							out.Mismatches = append(out.Mismatches, mismatch{Text: text, Tree: tree, Doc: w.Docs[di].Name, DocI: di, Cfg: cfg.Name, Want: want, Got: got})
						} else {
							out.Mismatches = append(out.Mismatches[:200], mismatch{Text: "...more"})[:201]
						}
					}
					if len(out.Samples) < 5 && out.Evals%997 == 1 {
						out.Samples = append(out.Samples, map[string]interface{}{"expr": text, "doc": w.Docs[di].Name, "cfg": cfg.Name, "spec": want, "impl": got.O})
					}
				}
			}
		}
	}
	if err := sc.Err(); err != nil {
		return err
	}
	b, _ := json.MarshalIndent(out, "", " ")
	return os.WriteFile(*of, b, 0o644)
}

var _ = bexpr.CreateEvaluator
