package main

import (
	"bufio"
	"encoding/json"
	"flag"
	"fmt"
	"os"
	"sync"

	bexpr "github.com/hashicorp/go-bexpr"
	"verif/harness/run"
	"verif/harness/zoo"
)

func init() { cmds["conc"] = cmdConc }

// cmdConc runs the concurrency scenarios with free-running goroutines released from one barrier (no gates: the race
// detector is happens-before based, anything that orders the goroutines would hide races). Build with -race.
func cmdConc(args []string) error {
	fs := flag.NewFlagSet("conc", flag.ExitOnError)
	rounds := fs.Int("rounds", 3, "repetitions of every scenario")
	gf := fs.String("groups", "", "write one observation group per concurrent call (sequential result, concurrent result) for spec/Rel.tla")
	fs.Parse(args)
	var gw *bufio.Writer
	if *gf != "" {
		f, err := os.Create(*gf)
		if err != nil {
			return err
		}
		defer f.Close()
		gw = bufio.NewWriter(f)
		defer gw.Flush()
	}
	// cold start: the very first uses of the library in this process happen concurrently (whatever is built lazily on first use -
	// tables, caches, pools - is first touched by several goroutines at once; the race detector reports unsynchronised initialisation)
	{
		cold := []string{`a == 1`, `s matches "^x"`, `any l as v { v == 1 }`, `not (a in b)`, `"/a/b" is empty`, `a ==`, ``, `m.k != "v" or n == 2`}
		var wg sync.WaitGroup
		start := make(chan struct{})
		for g := 0; g < 16; g++ {
			wg.Add(1)
			go func(g int) {
				defer wg.Done()
				<-start
				for i := 0; i < 4; i++ {
					src := cold[(g+i)%len(cold)]
					if ev, err := bexpr.CreateEvaluator(src); err == nil && ev != nil {
						ev.Evaluate(map[string]interface{}{"a": 1, "s": "x", "l": []int{1}})
					}
					if fl, err := bexpr.CreateFilter(src); err == nil && fl != nil {
						fl.Execute([]map[string]interface{}{{"a": 1}})
					}
				}
			}(g)
		}
		close(start)
		wg.Wait()
	}
	short := func(s string) string {
		if len(s) > 3 && s[:3] == "ok:" {
			return fmt.Sprintf("ok:%x", len(s))
		}
		return s
	}
	exprs := []string{
		`s matches "^sc"`, `s not matches "x$" and m.s matches "x"`, `any m3 as k, v { k matches "^[ab]$" }`, `s matches "("`,
		`all a.b.c as v { v.x == 1 and v.y != 2 }`, `any a.b.c.d.e as v { v.x == 2 }`, `all a.b.c.d.e.f as _, v { v.x != 9 }`, `any a.b.c.d.e.f.g as k, v { v.x == 3 and k != 1 }`,
		`all "/a/b/c" as v { v.x == 1 or v.y == 2 }`, `any l as v { any v as w { w == 2 } }`, `m.zz == 1 or st.Zz is empty`, `u_str == unk and 1 in l.0`, `X == 1 and Y != a`,
		`all Tags as t { t matches "^t" }`, `any big as v { v == 39 }`, `num == 1 and X == 1`, `any a.b.c as v { v.x == 1 or v.y == 2 }`, `num != 2 or X in l`, `1 in mixed`, `0 in mixed or 1.5 in mixed`,
		// error paths of quantifiers (maps whose keys are not strings, non-collections, same name twice) on some documents, ordinary
		// iterations with live bindings on the others
		`any mi as k, v { v != "zz" and k != "q" }`, `(all im3 as k, v { v.V != 9 }) or (any s as c { c == 1 })`, `(any m3 as k, k { k == 1 }) or (all mi as k, v { k != "q" and v != "zz" })`,
		`all l as i, v { (any v as j, w { w != 99 and j != 7 }) and i != 9 }`,
		`any grow.0 as v { v == 7 }`, `any grow.1 as i, v { v == 7 and i != 0 }`, `all grow.2 as v { v != 8 }`, `any grow.3 as v { v == 7 }`, `any grow.4 as _, v { v == 7 }`, `all grow.5 as v { v != 8 }`,
	}
	opts := [][]bexpr.Option{nil, {bexpr.WithUnknownValue("unk")}, {bexpr.WithHookFn(run.HookFn("unwrap"))}, {bexpr.WithTagName("json"), bexpr.WithMaxExpressions(1 << 20)}}
	docs := func() []interface{} {
		d := zoo.Deep()
		return []interface{}{d, zoo.Deep2(), zoo.Absent(), zoo.Maps(), zoo.Conts()[0].V}
	}
	// containers handed to shared filters: slices, arrays, pointer / interface slices and maps of several key types
	var fconts []interface{}
	for _, c := range zoo.Conts() {
		switch c.Name {
		case "items", "arr", "pitems", "ifaces", "maps", "smap", "imap", "ifmap", "nsmap", "nkmap", "maps-long":
			fconts = append(fconts, c.V)
		}
	}
	type mm struct {
		Scenario string `json:"scenario"`
		Expr     string `json:"expr"`
		Want     string `json:"sequential"`
		Got      string `json:"concurrent"`
	}
	var bad []mm
	scen, calls := 0, 0
	var mu sync.Mutex
	for round := 0; round < *rounds; round++ {
		for ei, src := range exprs {
			for _, k := range []int{2, 4, 16} {
				for _, ncalls := range []int{1, 3, 40} {
					if ncalls == 40 && (k == 2 || ei < 14) {
						continue // the long-running variant only for the expressions whose selectors meet values of several numeric kinds
					}
					for _, object := range []string{"shared evaluator", "shared filter", "create concurrently"} {
						for _, warm := range []bool{false, true} {
							o := opts[(ei+round)%len(opts)]
							if object == "shared filter" {
								o = nil
							}
							data := docs()
							// sequential results, each from a fresh object
							nd := len(data)
							if object == "shared filter" {
								nd = len(fconts)
							}
							want := make([]string, nd)
							// the sequential results are computed AFTER the concurrent phase, so that process-wide state (caches, tables)
							// is first touched concurrently
							computeWant := func() error {
								for di := 0; di < nd; di++ {
									if object == "shared filter" {
										fl, err := bexpr.CreateFilter(src)
										if err != nil {
											return err
										}
										_, want[di] = execute(fl, fconts[di])
									} else {
										d := data[di]
										ev, out := run.Create(src, o...)
										if ev == nil {
											return fmt.Errorf("%q: %s", src, out.O)
										}
										want[di] = run.Eval(ev, d).O
									}
								}
								return nil
							}
							type obs struct {
								di  int
								got string
							}
							var seen []obs
							scen++
							name := fmt.Sprintf("%s, %d goroutines x %d calls, warm=%v", object, k, ncalls, warm)
							var ev *bexpr.Evaluator
							var fl *bexpr.Filter
							if object == "shared evaluator" {
								ev, _ = run.Create(src, o...)
								if warm {
									run.Eval(ev, data[0])
								}
							}
							if object == "shared filter" {
								fl, _ = bexpr.CreateFilter(src)
								if warm {
									execute(fl, fconts[5])
								}
							}
							start := make(chan struct{})
							var wg sync.WaitGroup
							for g := 0; g < k; g++ {
								wg.Add(1)
								go func(g int) {
									defer wg.Done()
									<-start
									for c := 0; c < ncalls; c++ {
										di := (g + c) % nd
										var got string
										switch object {
										case "shared evaluator":
											got = run.Eval(ev, data[di]).O
										case "shared filter":
											_, got = execute(fl, fconts[di])
										default:
											e2, out := run.Create(src, o...)
											if e2 == nil {
												got = out.O
											} else {
												got = run.Eval(e2, data[di]).O
											}
										}
										mu.Lock()
										seen = append(seen, obs{di, got})
										mu.Unlock()
									}
								}(g)
							}
							close(start)
							wg.Wait()
							if err := computeWant(); err != nil {
								return err
							}
							for _, ob := range seen {
								calls++
								if gw != nil && (calls%7 == 0 || ob.got != want[ob.di]) {
									b, _ := json.Marshal(map[string]interface{}{"rel": "same", "obs": []string{short(want[ob.di]), short(ob.got)},
										"info": map[string]interface{}{"scenario": name, "expr": src}})
									gw.Write(b)
									gw.WriteByte('\n')
								}
								if ob.got != want[ob.di] && len(bad) < 40 {
									bad = append(bad, mm{Scenario: name, Expr: src, Want: trunc(want[ob.di]), Got: trunc(ob.got)})
								}
							}
						}
					}
				}
			}
		}
	}
	if bad == nil {
		bad = []mm{}
	}
	return json.NewEncoder(os.Stdout).Encode(map[string]interface{}{"scenarios": scen, "calls": calls, "exprs": len(exprs), "mismatches": bad})
}
