package main

import (
	"encoding/json"
	"flag"
	"os"

	"verif/harness/expr"
)

func init() { cmds["render"] = cmdRender }

// cmdRender spells expression trees as source text in several styles.
func cmdRender(args []string) error {
	fs := flag.NewFlagSet("render", flag.ExitOnError)
	in := fs.String("exprs", "exprs.json", "JSON list of expression trees")
	sf := fs.String("styles", "", "JSON list of styles (default: six built-in profiles)")
	fs.Parse(args)
	b, err := os.ReadFile(*in)
	if err != nil {
		return err
	}
	var es []expr.Expr
	if err := json.Unmarshal(b, &es); err != nil {
		return err
	}
	styles := []expr.Style{{}, {Sel: "bracket", Lit: "raw"}, {Sel: "pointer", WS: "wide"}, {Sel: "backtick", Lit: "bare", Paren: 1}, {Cont: true, Paren: 2}, {Lit: "dq", WS: "wide", Cont: true}}
	if *sf != "" {
		sb, err := os.ReadFile(*sf)
		if err != nil {
			return err
		}
		styles = nil
		if err := json.Unmarshal(sb, &styles); err != nil {
			return err
		}
	}
	type row struct {
		I     int    `json:"i"`
		Style int    `json:"style"`
		Text  string `json:"text"`
		Steps uint64 `json:"steps"` // what the real parser takes on it (used to bound the cost of model runs, not as an oracle)
	}
	installStepHook()
	var out []row
	for i := range es {
		seen := map[string]bool{}
		for si, st := range styles {
			t, err := expr.Render(&es[i], st)
			if err != nil || seen[t] {
				continue
			}
			seen[t] = true
			out = append(out, row{I: i, Style: si, Text: t, Steps: realParse([]byte(t), 1<<20).Cnt})
		}
	}
	return json.NewEncoder(os.Stdout).Encode(out)
}

func init() { cmds["steps-of"] = cmdStepsOf }

// cmdStepsOf reports how many steps the real parser takes on each input (a list of symbol sequences), capped by a
// budget: used only to keep the cost of model runs bounded, never as an oracle.
func cmdStepsOf(args []string) error {
	fs := flag.NewFlagSet("steps-of", flag.ExitOnError)
	in := fs.String("inputs", "inputs.json", "JSON list of symbol sequences")
	budget := fs.Uint64("cap", 1<<20, "budget")
	fs.Parse(args)
	b, err := os.ReadFile(*in)
	if err != nil {
		return err
	}
	var inputs [][]string
	if err := json.Unmarshal(b, &inputs); err != nil {
		return err
	}
	installStepHook()
	out := make([]uint64, len(inputs))
	for i, s := range inputs {
		out[i] = realParse(bytesOf(s), *budget).Cnt
	}
	return json.NewEncoder(os.Stdout).Encode(out)
}
