package main

import (
	"encoding/json"
	"flag"
	"fmt"
	"os"

	bexpr "github.com/hashicorp/go-bexpr"
	"verif/harness/expr"
)

func init() { cmds["steps"] = cmdSteps }

// minBudget finds, through the public option only, the smallest n > 0 for which CreateEvaluator(text,
// WithMaxExpressions(n)) does not fail (0 if even a huge budget fails).
func minBudget(text string) uint64 {
	ok := func(n uint64) bool {
		defer func() { recover() }()
		ev, err := bexpr.CreateEvaluator(text, bexpr.WithMaxExpressions(n))
		return err == nil && ev != nil
	}
	hi := uint64(1)
	for !ok(hi) {
		hi *= 2
		if hi > 1<<40 {
			return 0
		}
	}
	lo := hi / 2 // fails (or 0)
	for lo+1 < hi {
		mid := (lo + hi) / 2
		if ok(mid) {
			hi = mid
		} else {
			lo = mid
		}
	}
	return hi
}

func cmdSteps(args []string) error {
	fs := flag.NewFlagSet("steps", flag.ExitOnError)
	in := fs.String("exprs", "exprs.json", "JSON list of expression trees")
	fs.Parse(args)
	b, err := os.ReadFile(*in)
	if err != nil {
		return err
	}
	var es []expr.Expr
	if err := json.Unmarshal(b, &es); err != nil {
		return err
	}
	var out []uint64
	for i := range es {
		t, err := expr.Render(&es[i], expr.Style{})
		if err != nil {
			return fmt.Errorf("expression %d: %v", i, err)
		}
		// the step counter of an unlimited parse (hook); without the hook, the smallest budget the public API accepts
		installStepHook()
		n := realParse([]byte(t), 0).Cnt
		if n == 0 {
			n = minBudget(t)
		}
		out = append(out, n)
	}
	return json.NewEncoder(os.Stdout).Encode(out)
}
