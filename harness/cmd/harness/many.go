package main

import (
	"encoding/json"
	"flag"
	"fmt"
	"os"

	bexpr "github.com/hashicorp/go-bexpr"
)

func init() { cmds["many"] = cmdMany }

// cmdMany creates, in one process, n distinct expressions of each of several shapes (distinct regular expressions, literals,
// selectors, binding names) through CreateEvaluator and CreateFilter and evaluates each on a document for which the outcome is
// known by construction: whatever a process remembers between creations (caches, tables, pools) must not change the result shape
// or the meaning of the n-th expression.
func cmdMany(args []string) error {
	fs := flag.NewFlagSet("many", flag.ExitOnError)
	n := fs.Int("n", 600, "expressions per shape")
	fs.Parse(args)
	type bad struct {
		Expr string `json:"expr"`
		What string `json:"what"`
	}
	var out []bad
	runs := 0
	doc := map[string]interface{}{"foo": "p17x", "n": 17, "l": []interface{}{"a17", 17}, "m": map[string]interface{}{"k17": 17}}
	shapes := []struct {
		name string
		mk   func(i int) (string, string) // expression, expected outcome on doc
	}{
		{"pattern", func(i int) (string, string) { return fmt.Sprintf(`foo matches "^p%dx$"`, i), tf(i == 17) }},
		{"not-pattern", func(i int) (string, string) { return fmt.Sprintf("foo not matches `p%d[x]`", i), tf(i != 17) }},
		{"literal", func(i int) (string, string) { return fmt.Sprintf(`n == %d`, i), tf(i == 17) }},
		{"string-literal", func(i int) (string, string) { return fmt.Sprintf(`"a%d" in l`, i), tf(i == 17) }},
		{"selector", func(i int) (string, string) { return fmt.Sprintf(`m.k%d == 17`, i), tf(i == 17) }},
		{"binding", func(i int) (string, string) { return fmt.Sprintf(`any l as v%d { v%d == 17 }`, i, i), "T" }},
		{"pattern-in-body", func(i int) (string, string) { return fmt.Sprintf(`all m as k, v { k matches "^k%d$" }`, i), tf(i == 17) }},
		{"invalid-pattern", func(i int) (string, string) { return fmt.Sprintf(`foo matches "(%d"`, i), "E" }},
	}
	for _, sh := range shapes {
		for i := 0; i < *n; i++ {
			src, want := sh.mk(i)
			runs++
			got := func() (g string) {
				defer func() {
					if r := recover(); r != nil {
						g = fmt.Sprint("PANIC: ", r)
					}
				}()
				ev, err := bexpr.CreateEvaluator(src)
				if err != nil || ev == nil {
					return fmt.Sprint("CreateEvaluator: ", err)
				}
				fl, err := bexpr.CreateFilter(src)
				if err != nil || fl == nil {
					return fmt.Sprint("CreateFilter: ", err)
				}
				r, err := ev.Evaluate(doc)
				switch {
				case err != nil && r:
					return "TRUE+ERR"
				case err != nil:
					return "E"
				}
				return tf(r)
			}()
			if got != want && len(out) < 40 {
				out = append(out, bad{Expr: src, What: fmt.Sprintf("expression %d of shape %q: expected %s, got %s", i+1, sh.name, want, got)})
			}
		}
	}
	if out == nil {
		out = []bad{}
	}
	return json.NewEncoder(os.Stdout).Encode(map[string]interface{}{"runs": runs, "bad": out})
}

func tf(b bool) string {
	if b {
		return "T"
	}
	return "F"
}
