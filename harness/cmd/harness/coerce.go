package main

import (
	"bufio"
	"encoding/json"
	"errors"
	"flag"
	"fmt"
	"os"
	"strconv"

	bexpr "github.com/hashicorp/go-bexpr"
	"verif/harness/av"
)

func init() { cmds["coerce"] = cmdCoerce }

type reading struct {
	R    string `json:"r"`
	B    bool   `json:"b"`
	Neg  bool   `json:"neg"`
	M    [4]int `json:"m"`
	Bits string `json:"bits"`
}

func errClass(err error) string {
	if errors.Is(err, strconv.ErrRange) {
		return "range"
	}
	return "syntax"
}

// cmdCoerce compares the public Coerce* functions with the readings TLC printed.
func cmdCoerce(args []string) error {
	fs := flag.NewFlagSet("coerce", flag.ExitOnError)
	wf := fs.String("world", "world.json", "world file with the texts")
	cf := fs.String("cases", "cases.ndjson", "readings printed by TLC")
	of := fs.String("out", "coerce.json", "result")
	fs.Parse(args)
	b, err := os.ReadFile(*wf)
	if err != nil {
		return err
	}
	var w struct {
		Texts []string `json:"texts"`
	}
	if err := json.Unmarshal(b, &w); err != nil {
		return err
	}
	f, err := os.Open(*cf)
	if err != nil {
		return err
	}
	defer f.Close()
	type mm struct {
		Text string `json:"text"`
		Fn   string `json:"fn"`
		Spec string `json:"spec"`
		Impl string `json:"impl"`
	}
	var bad []mm
	n, okv := 0, 0
	show := func(r reading, kind string) string {
		if r.R != "ok" {
			return r.R
		}
		switch kind {
		case "b":
			return fmt.Sprint(r.B)
		case "i", "u":
			return fmt.Sprintf("neg=%v m=%v", r.Neg, r.M)
		}
		return r.Bits
	}
	sc := bufio.NewScanner(f)
	sc.Buffer(make([]byte, 1<<20), 1<<26)
	for sc.Scan() {
		var c struct {
			N   int     `json:"n"`
			B   reading `json:"b"`
			I   reading `json:"i"`
			U   reading `json:"u"`
			F64 reading `json:"f64"`
			F32 reading `json:"f32"`
		}
		if err := json.Unmarshal(sc.Bytes(), &c); err != nil {
			return err
		}
		s := w.Texts[c.N-1]
		n++
		cmp := func(fn string, spec reading, kind string, impl reading) {
			if show(spec, kind) != show(impl, kind) {
				bad = append(bad, mm{Text: s, Fn: fn, Spec: show(spec, kind), Impl: show(impl, kind)})
			} else if impl.R == "ok" {
				okv++
			}
		}
		func() {
			defer func() {
				if r := recover(); r != nil {
					bad = append(bad, mm{Text: s, Fn: "Coerce*", Spec: "no panic", Impl: fmt.Sprint("PANIC ", r)})
				}
			}()
			if v, err := bexpr.CoerceBool(s); err != nil {
				cmp("CoerceBool", c.B, "b", reading{R: errClass(err)})
			} else {
				cmp("CoerceBool", c.B, "b", reading{R: "ok", B: v.(bool)})
			}
			if v, err := bexpr.CoerceInt64(s); err != nil {
				cmp("CoerceInt64", c.I, "i", reading{R: errClass(err)})
			} else {
				iv := av.IntOf(v.(int64))
				cmp("CoerceInt64", c.I, "i", reading{R: "ok", Neg: iv.Neg, M: iv.M})
			}
			if v, err := bexpr.CoerceUint64(s); err != nil {
				cmp("CoerceUint64", c.U, "u", reading{R: errClass(err)})
			} else {
				cmp("CoerceUint64", c.U, "u", reading{R: "ok", M: av.UintOf(v.(uint64)).M})
			}
			if v, err := bexpr.CoerceFloat64(s); err != nil {
				cmp("CoerceFloat64", c.F64, "f", reading{R: errClass(err)})
			} else {
				cmp("CoerceFloat64", c.F64, "f", reading{R: "ok", Bits: av.F64Bits(v.(float64))})
			}
			if v, err := bexpr.CoerceFloat32(s); err != nil {
				cmp("CoerceFloat32", c.F32, "f", reading{R: errClass(err)})
			} else {
				cmp("CoerceFloat32", c.F32, "f", reading{R: "ok", Bits: av.F32Bits(v.(float32))})
			}
		}()
	}
	if len(bad) > 100 {
		bad = bad[:100]
	}
	out, _ := json.MarshalIndent(map[string]interface{}{"texts": n, "values": okv, "mismatches": bad}, "", " ")
	return os.WriteFile(*of, out, 0o644)
}
