package main

import (
	"encoding/json"
	"fmt"
	"os"

	"github.com/hashicorp/go-bexpr/grammar"
	"verif/harness/expr"
)

func main() {
	var e expr.Expr
	json.Unmarshal([]byte(os.Args[1]), &e)
	for _, s := range []string{"auto", "bracket", "backtick", "pointer"} {
		t, err := expr.Render(&e, expr.Style{Sel: s})
		fmt.Println(s, t, err)
		if err == nil {
			ast, perr := grammar.Parse("", []byte(t))
			if perr != nil {
				fmt.Println("  parse error", perr)
				continue
			}
			b, _ := json.Marshal(expr.FromAST(ast.(grammar.Expression)))
			fmt.Println("  ", string(b), expr.Same(expr.FromAST(ast.(grammar.Expression)), &e, false))
		}
	}
}
