// Command defects replays the concrete failing inputs D1..D10 recorded in
// DESIGN.md section 6 against the go-bexpr tree the harness module is bound to.
package main

import (
	"encoding/json"
	"fmt"
	"os"
	"strings"

	bexpr "github.com/hashicorp/go-bexpr"
)

type K string

func run(expr string, datum interface{}) (out string) {
	defer func() {
		if r := recover(); r != nil {
			out = fmt.Sprintf("PANIC(%v)", r)
		}
	}()
	ev, err := bexpr.CreateEvaluator(expr)
	if err != nil {
		return "CREATE-ERR"
	}
	b, err := ev.Evaluate(datum)
	if err != nil {
		return fmt.Sprintf("(%v,err)", b)
	}
	return fmt.Sprintf("(%v,nil)", b)
}

func js(s string) interface{} {
	var v interface{}
	if err := json.Unmarshal([]byte(s), &v); err != nil {
		panic(err)
	}
	return v
}

func main() {
	one, two := 1, 2
	p1 := &one
	pp1 := &p1
	bad := 0
	chk := func(id, expr string, d interface{}, want string) {
		got := run(expr, d)
		st := "ok"
		if !strings.HasPrefix(got, want) {
			st = "DEFECT"
			bad++
		}
		fmt.Printf("%-4s %-7s %-40q got=%s want=%s\n", id, st, expr, got, want)
	}
	chk("D1", "not zz == 1", map[string]interface{}{}, "(false,err)")
	chk("D2", "i is empty", map[string]interface{}{"i": 5}, "(false,err)")
	chk("D2", "n is empty", js(`{"n":null}`), "(false,err)")
	chk("D2", "t is not empty", map[string]interface{}{"t": struct{ A int }{1}}, "(false,err)")
	chk("D3", `n matches "x"`, js(`{"n":null}`), "(false,err)")
	chk("D4", "x in a", js(`{"a":[1,null,"x"]}`), "(true,nil)")
	chk("D4", "2 in il", map[string]interface{}{"il": []interface{}{(*int)(nil), 2}}, "(true,nil)")
	chk("D5", "2 in pl", map[string]interface{}{"pl": []*int{&one, nil, &two}}, "(true,nil)")
	chk("D5", "1 in ppl", map[string]interface{}{"ppl": []**int{pp1}}, "(true,nil)")
	chk("D6", "5 in im", map[string]interface{}{"im": map[int]string{5: "a"}}, "(true,nil)")
	chk("D6", "x in km", map[string]interface{}{"km": map[K]string{"x": "a"}}, "(true,nil)")
	chk("D10", `s == "/usr/bin"`, map[string]interface{}{"s": "/usr/bin"}, "(true,nil)")
	// D7
	func() {
		defer func() {
			if r := recover(); r != nil {
				fmt.Printf("D7   DEFECT  Execute(nil) panics: %v\n", r)
				bad++
			}
		}()
		f, _ := bexpr.CreateFilter("a == 1")
		_, err := f.Execute(nil)
		fmt.Printf("D7   ok      Execute(nil) err=%v\n", err != nil)
	}()
	// D9
	d9 := js(`{"m":{"a":{"x":1},"b":5}}`)
	seen := map[string]int{}
	for i := 0; i < 400; i++ {
		seen[run("any m as k, v { v.x == 1 }", d9)]++
	}
	if len(seen) > 1 {
		bad++
		fmt.Printf("D9   DEFECT  outcomes vary: %v\n", seen)
	} else {
		fmt.Printf("D9   ok      %v\n", seen)
	}
	if bad > 0 {
		os.Exit(1)
	}
}
